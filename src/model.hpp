// model.hpp -- the small executable reference model of the CIF data model, plus conversion of real library objects
// into model objects using public queries only ("dump"), and construction of real values from model values.
#pragma once
#include "sim.hpp"

// ----------------------------------------------------------------------------------------------- normalisation (harness side)
// Independent of libcif: NFD -> default full case folding -> NFC, through ICU directly.
ustr mnorm(const ustr &s);          // for block codes, frame codes, data names
ustr mnfc(const ustr &s);           // for table keys
bool m_valid_name(const ustr &s, bool item);   // CIF validity rules for data names (item) / block+frame codes
bool m_valid_key(const ustr &s);    // table key validity (no disallowed characters)

// ----------------------------------------------------------------------------------------------- name pools (closed alphabet)
struct NameClass { std::vector<ustr> variants; };   // variants[0] is the plain spelling; all normalise alike
const std::vector<NameClass> &item_pool();
const std::vector<NameClass> &code_pool();
const std::vector<ustr> &invalid_items();
const std::vector<ustr> &invalid_codes();
const std::vector<NameClass> &key_pool();           // table keys: NFC-equivalent spellings only (case is significant)
void pools_selfcheck();                             // exits 2 if the tables are inconsistent (harness fault)

// ----------------------------------------------------------------------------------------------- values
struct MValue {
    int kind = CIF_UNK_KIND;
    ustr text;                 // CHAR, NUMB
    bool quoted = false;       // CHAR, NUMB
    std::vector<MValue> elems; // LIST
    std::vector<std::pair<ustr, MValue>> entries;   // TABLE: (key in the spelling last used, value), insertion order
    bool has_num = false;      // NUMB: captured through the public getters when the real value was snapshotted
    double number = 0, su = 0;
    static MValue unk() { return MValue(); }
    static MValue na() { MValue v; v.kind = CIF_NA_KIND; return v; }
    static MValue chr(const ustr &t, bool q) { MValue v; v.kind = CIF_CHAR_KIND; v.text = t; v.quoted = q; return v; }
    static MValue numb(const ustr &t) { MValue v; v.kind = CIF_NUMB_KIND; v.text = t; v.quoted = false; return v; }
    MValue *find_key(const ustr &key);               // by NFC equivalence
    int depth() const;
    size_t nodes() const;
};
// canonical rendering; equal strings <=> equal values under the chosen equivalence
enum ValEq { VE_STRICT = 0,        // kind, text, quoted, number/su bits (when both sides carry them), structure, key spelling
             VE_ROUNDTRIP = 1 };   // C02/C13: NUMB == unquoted CHAR with same text; unquoted CHAR starting ';' may be quoted
std::string canon(const MValue &v, ValEq eq = VE_STRICT);
std::string show(const MValue &v, size_t maxlen = 200);   // for logs

// real <-> model
MValue snapshot_value(cif_value_tp *v);
bool valid_cif_number(const ustr &t);
extern std::vector<std::string> *g_classify_problems;   // when set, snapshot_value also probes the number classification of unquoted strings (C01)                   // public getters only; never coerces CHAR to NUMB
// Builds a real value denoting 'spec' through the public API. Returns NULL and sets *rc on failure.
cif_value_tp *build_value(const MValue &spec, int *rc);

// ----------------------------------------------------------------------------------------------- containers
struct MName { ustr orig, norm; };
struct MPacket { std::map<ustr, std::optional<MValue>> vals; uint64_t uid = 0;
    bool any_stored() const { for (auto &kv : vals) if (kv.second) return true; return false; } };   // norm name -> value; nullopt = no stored value (reads UNK)
struct MLoop {
    bool has_cat = false; ustr cat;
    std::vector<MName> names;
    std::vector<MPacket> packets;
    int find(const ustr &norm) const { for (size_t i = 0; i < names.size(); ++i) if (names[i].norm == norm) return (int) i; return -1; }
    bool is_scalar() const { return has_cat && cat.empty(); }
    uint64_t uid = 0;            // model identity (for handle bookkeeping)
    long last_row = 0;           // mirrors nothing observable; kept for diagnostics only
};
struct MCont {
    ustr code_orig, code_norm;
    std::vector<MCont> frames;
    std::vector<MLoop> loops;
    uint64_t uid = 0;
    MLoop *loop_of(const ustr &norm) { for (auto &l : loops) if (l.find(norm) >= 0) return &l; return NULL; }
    MLoop *scalar_loop() { for (auto &l : loops) if (l.is_scalar()) return &l; return NULL; }
    MCont *frame(const ustr &norm) { for (auto &f : frames) if (f.code_norm == norm) return &f; return NULL; }
    MLoop *loop_by_uid(uint64_t u) { for (auto &l : loops) if (l.uid == u) return &l; return NULL; }
};
struct MCif {
    std::vector<MCont> blocks;
    MCont *block(const ustr &norm) { for (auto &b : blocks) if (b.code_norm == norm) return &b; return NULL; }
};
MCont *find_cont(MCif &c, uint64_t uid);
MCont *find_cont(MCont &c, uint64_t uid);

struct DumpOpts {
    ValEq eq = VE_STRICT;
    bool names_by_norm = false;   // compare loop names by normalised form instead of creation spelling
    bool codes_by_norm = false;
    bool drop_empty_loops = false;
    bool ignore_category = false; // round trips do not preserve categories of non-scalar loops
};
std::string canon(const MCif &c, const DumpOpts &o = DumpOpts());
std::string canon(const MCont &c, const DumpOpts &o, int depth);

// Dump the real CIF through public queries.  Throws Violation("<prefix>.dump", ...) if a query fails or if the
// structural invariants (unique names per container, one loop per name, <=1 scalar loop with <=1 packet) are broken.
MCif dump_cif(cif_tp *cif, const char *clause_prefix);
MCont dump_container(cif_container_tp *c, const char *clause_prefix);
// first difference between two canonical renderings, for messages
std::string first_diff(const std::string &a, const std::string &b);
