// apieng.hpp -- data structures of the api engine
#pragma once
#include "model.hpp"
#include "gen.hpp"
#include "faultenum.hpp"

enum OpK { O_CifCreate, O_CifDestroy, O_BlockCreate, O_BlockGet, O_BlocksAll, O_FrameCreate, O_FrameGet, O_FramesAll,
    O_ContDestroy, O_ContCode, O_LoopCreate, O_LoopByCat, O_LoopByItem, O_LoopsAll, O_Prune, O_GetValue, O_SetValue, O_RemoveItem,
    O_LoopDestroy, O_LoopCat, O_LoopNames, O_LoopSetCat, O_LoopAddItem, O_LoopAddPacket, O_IterOpen, O_IterNext, O_IterUpdate, O_IterRemove,
    O_IterClose, O_IterAbort, O_HandleFree, O_Dump, O_Walk, O_Checkpoint, O_PlantFail, O_PacketNew, O_ParseInto, O_COUNT };
const char *opk_name(int k);

// planted failure kinds (C05)
enum PfKind { PF_LoopCreateInvalid, PF_LoopCreateDupExisting, PF_LoopCreateDupSelf, PF_AddPacketForeign, PF_AddPacketEmpty, PF_AddPacketScalar2,
    PF_BlockDup, PF_BlockInvalid, PF_FrameDup, PF_FrameInvalid, PF_AddItemDup, PF_AddItemInvalid, PF_SetValueInvalid, PF_SetCatReserved,
    PF_RemoveMissing, PF_IterUpdateForeign, PF_AddPacketStale, PF_SetValueStrandedScalar, PF_COUNT };

struct NameRef { int cls = 0, variant = 0, invalid = -1; };

struct Op {
    OpK k = O_Dump;
    uint32_t a = 0, b = 0, c = 0, d = 0;   // symbolic operands, resolved "modulo live objects" at execution time
    uint64_t seed = 0;                     // per-op sub-seed for operands generated lazily (values) -- independent of other ops
    std::vector<NameRef> names; NameRef code;
    int cat_kind = 0, cat_idx = 0;         // 0 NULL, 1 "", 2 pool[cat_idx]
    int pk_mode = 0, pos = 0;
    int pf_kind = 0; bool inside_tx = false, abort_tx = false;
    bool null_arg = false;
    bool off = false, simple = false;
    // attached fault: 1..6 simulated-disk fault kinds, 20 output-stream error at byte fault_at
    int fault_kind = 0; long fault_at = 0; int fault_code = 0; bool fault_sticky = false;
};

struct ApiCfg {
    std::string prop = "C04";
    std::string content_clause = "content";
    int min_ops = 10, max_ops = 45;
    std::vector<unsigned> weights = std::vector<unsigned>(O_COUNT, 0);
    int name_classes = 8, code_classes = 4;
    int value_depth = 3;
    int spill_num = 1, spill_den = 3;
    bool storage_faults = false, write_faults = false, hostile_env = false;
    bool final_checkpoint = false; int write_version = 2;
    bool cif11_values = false, boundary_bias = false;
    bool enumerate_alloc = false;          // C17: every op is executed under k-th allocation failure, k = 1, 2, ...
    bool quick = true;
    bool leak_check = false;              // C16 / C17 only: the malloc/free balance after teardown
    int max_cifs = 3;
};

struct RCif { cif_tp *cif = NULL; MCif model; int iter = -1; };
struct HCont { cif_container_tp *h = NULL; int cif = 0; uint64_t uid = 0; };
struct Zombie { cif_container_tp *h = NULL; int cif = 0; };     // a second handle on a container that was destroyed through another handle
struct HLoop { cif_loop_tp *h = NULL; int cif = 0; uint64_t cont_uid = 0, loop_uid = 0; int via = -1; bool locked = false; bool cached_has_cat = false; ustr cached_cat; };
struct HPacket { cif_packet_tp *p = NULL; std::vector<std::pair<MName, MValue>> items; };
enum ItState { IT_NEW, IT_ITERATED, IT_REMOVED, IT_FINISHED };
struct HIter {
    cif_pktitr_tp *it = NULL; int cif = 0; int loop_slot = -1;
    MCif snapshot;                         // model of the whole CIF at iterator creation (abort restores it)
    std::set<uint64_t> undelivered;        // packet uids not yet (knowingly) delivered
    long unknown_delivered = 0;            // packets delivered through next(NULL): identity unknown
    uint64_t cur = 0; bool cur_valid = false, cur_unknown = false;
    ItState state = IT_NEW;
    size_t loops_at_open = 0, conts_at_open = 0;   // handles created later, inside the transaction, are discarded on abort
};

struct ApiRun {
    RunSpec spec; ApiCfg cfg; GenCfg gcfg;
    std::vector<Op> ops;
    int spill_pages = 0; bool no_lookaside = false; EnvSeam env; int dump_every = 0; long mutation_counter = 0;
    std::vector<Zombie> zombies; void probe_zombies(int cif, const char *when); void free_zombies(int cif);
    std::vector<RCif> cifs; std::vector<HCont> conts; std::vector<HLoop> loops; std::vector<HPacket> packets; std::vector<HIter> iters;
    uint64_t next_uid = 1;
    int cur_op = -1; int cur_kind = 0;
    int last_rc = 0; int forced_cont = -1, forced_loop = -1; bool beside_ok = false;   // beside_ok: this (read-only) op may address a CIF with an open iterator, away from the iterated loop
    bool tx_other_mods = false; MCif tx_alt_model;

    ApiRun(const RunSpec &s, const ApiCfg &c);
    RunResult run();
    void generate();
    void exec(const Op &o);
    [[noreturn]] void violate(const std::string &clause, const std::string &sig, const std::string &detail);

    NameRef gen_name(Rng &r, bool allow_invalid); NameRef gen_code(Rng &r, bool allow_invalid);
    ustr name_str(const NameRef &n, bool simple) const; ustr code_str(const NameRef &n, bool simple) const;
    int pick_cif(uint32_t x); int pick_cont(uint32_t x, bool need_free_cif); int pick_cont_beside_iter(uint32_t x); int pick_loop(uint32_t x, bool need_free_cif, bool allow_stale);
    MCont *mcont(int slot); MLoop *mloop(int slot); bool loop_stale(int slot);
    int add_cont(cif_container_tp *h, int cif, uint64_t uid); int add_loop(cif_loop_tp *h, int cif, uint64_t cont_uid, uint64_t loop_uid, int via);
    void free_loop_slot(int i); void free_cont_slot(int i); void close_iter_of_loop(int loop_slot);
    void retire_subtree(int cif, const MCont &gone, int except_cont_slot);
    void check_dump(int cif, const char *when); void check_all_dumps(const char *when);
    void cover(int k, int rc, uint64_t pre);
    void expect_rc(const char *fn, int rc, std::initializer_list<int> ok, bool any_err = false);
    cif_value_tp *make_value(const Op &o, MValue &snap, uint64_t salt);
    void abuse_value(cif_value_tp *v, uint64_t seed);
    void teardown(); void check_leaks(long live0, long sq0);

    // op implementations (eng_api_ops.cpp)
    void op_cif_create(const Op &o); void op_cif_destroy(const Op &o);
    void op_block_create(const Op &o); void op_block_get(const Op &o); void op_blocks_all(const Op &o);
    void op_frame_create(const Op &o); void op_frame_get(const Op &o); void op_frames_all(const Op &o);
    void op_cont_destroy(const Op &o); void op_cont_code(const Op &o);
    void op_loop_create(const Op &o); void op_loop_by_cat(const Op &o); void op_loop_by_item(const Op &o); void op_loops_all(const Op &o);
    void op_prune(const Op &o); void op_get_value(const Op &o); void op_set_value(const Op &o); void op_remove_item(const Op &o);
    void op_loop_destroy(const Op &o); void op_loop_cat(const Op &o); void op_loop_names(const Op &o); void op_loop_set_cat(const Op &o);
    void op_loop_add_item(const Op &o); void op_loop_add_packet(const Op &o);
    void op_iter_open(const Op &o); void op_iter_next(const Op &o); void op_iter_update(const Op &o); void op_iter_remove(const Op &o); void op_iter_end(const Op &o, bool abort, bool after_fault = false);
    void op_handle_free(const Op &o); void op_walk(const Op &o); void op_checkpoint(const Op &o); void op_plant_fail(const Op &o); void plant_stranded_scalar(const Op &o, int ci); void op_packet_new(const Op &o);
    void op_parse_into(const Op &o);
    // helpers
    int build_packet(const Op &o, MLoop *target, HPacket &out, bool &foreign, bool &empty);
    void arm_faults(const Op &o); void disarm_faults();
    bool fault_fired() const;
    uint64_t prestate(int cif_slot, MCont *c, MLoop *l);
    void after_mutation(int cif, bool failed);
    bool would_strand(MLoop *l, const ustr &norm);
    std::vector<NameRef> fresh_names(MCont *m, size_t n, uint64_t seed);
    int temp_handle(int ci, uint64_t uid, cif_container_tp **out);
    void prune_all(int ci);
    int current_iter(int cif) { return cifs[(size_t) cif].iter; }
    void open_iter_internal(int loop_slot, int &rc);
    void verify_roundtrip(int cif, int version, const Op &o);
    uint64_t new_uid() { return next_uid++; }

    // Every real API call goes through api(): event accounting, the global-state monitors (locale, rounding mode), and --
    // in fault-enumeration runs (C17) -- the loop "fail the k-th allocation, k = 1, 2, ... until the fault no longer fires".
    // 'f' must be re-invocable: a failed attempt has to leave everything unchanged, which is the property under test.
    enum { A_PLAIN = 0, A_ITER = 1, A_NOENUM = 2, A_REPEATABLE = 4 };   // A_REPEATABLE: read-only call whose outputs are rebuilt by every invocation
    long enum_steps = 0;
    bool disk_plan_active = false;
    bool absorbed_pending = false;        // a call completed normally although an allocation failed: compare dumps after the op
    bool last_fault_sq = false;           // allocator domain of the most recent injected failure
    bool iter_fault_hit = false;          // an iterator call ran under a fired allocation fault: caller aborts the iterator
    template <class F> int api(const char *fn, F f, int flags = A_PLAIN);
    void env_check(const char *fn, const std::string &loc0, int rnd0);
    TxMonitor txm;
    void tx_check(const char *fn, int rc, long k, bool sqlite_alloc);
    void enum_check_failed_attempt(const char *fn, int rc, long k, bool sqlite_alloc, bool do_dump);
};

template <class F> int ApiRun::api(const char *fn, F f, int flags) {
    ++g_stats.events;
    std::string loc0 = EnvSeam::cur_locale(); int rnd0 = EnvSeam::cur_rounding();
    if (cfg.enumerate_alloc && !(flags & A_NOENUM)) {
        uint64_t h = hmix(hmix(ops[(size_t) cur_op].seed, hstr(fn)), (uint64_t) enum_steps);
        bool sq = (h & 1) != 0;
        AllocSeam &A = sq ? g_salloc : g_lalloc;
        Rng skip(h);
        if (flags & A_ITER) {
            long k = 1 + (long) (skip.chance(1, 2) ? skip.below(12) : skip.below(60));   // one failure index per iterator call (the iterator is abandoned afterwards)
            A.arm(k); int rc = f(); bool fired = A.fired; A.disarm();
            env_check(fn, loc0, rnd0);
            last_fault_sq = sq;
            if (fired && (rc == CIF_MEMORY_ERROR || rc == CIF_ERROR)) { ++enum_steps; enum_check_failed_attempt(fn, rc, k, sq, false); iter_fault_hit = true; }
            else if (fired) { g_stats.inc(sq ? "fault.alloc_sqlite.absorbed" : "fault.alloc_libcif.absorbed"); ev("%s: %s allocation failure #%ld absorbed -> %s", fn, sq ? "storage-engine" : "library", k, rc_name(rc)); }
            return rc;
        }
        // A failed allocation may be absorbed: SQLite recovers from some of its own (cache growth, hash resizing,
        // lookaside fall-back), and the library itself retries a buffer growth with a smaller request.  The call then
        // completes normally; it counts as the unfaulted execution and is judged by the model like any other call (with a
        // full dump comparison right after the op, so that a swallowed failure with a partial effect is caught).
        // To reach allocation sites beyond an absorbed one, some walks start at a later k.
        std::vector<std::pair<int, long>> absorbed_rcs;
        long k0 = 1;
        if (((h >> 9) % 3) == 0) k0 = 1 + (long) skip.below(sq ? 150 : 40);
        for (long k = k0; k < 100000; ) {
            A.arm(k); int rc = f(); bool fired = A.fired; A.disarm();
            env_check(fn, loc0, rnd0);
            if (!fired) {
                for (auto &ar : absorbed_rcs) if (ar.first != rc) violate("code", strprintf("%s:absorbed:%s!=%s", fn, rc_name(ar.first), rc_name(rc)), strprintf("%s returned %s when allocation #%ld failed, but %s when no allocation failed: a failed allocation must lead to CIF_MEMORY_ERROR or CIF_ERROR, or be absorbed without any effect on the result", fn, rc_name(ar.first), ar.second, rc_name(rc)));
                absorbed_rcs.clear();
                return rc;
            }
            if (rc != CIF_MEMORY_ERROR && rc != CIF_ERROR && (flags & A_REPEATABLE)) {
                // the call can simply be made again: remember the code this attempt produced (it must equal the code of the unfaulted
                // execution, checked below) and go on to the next allocation site
                g_stats.inc(sq ? "fault.alloc_sqlite.absorbed" : "fault.alloc_libcif.absorbed"); ev("%s: %s allocation failure #%ld absorbed -> %s (continuing)", fn, sq ? "storage-engine" : "library", k, rc_name(rc));
                tx_check(fn, rc, k, sq); absorbed_rcs.push_back({rc, k}); ++enum_steps; k = next_k(k, cfg.quick, skip); continue;
            }
            if (rc != CIF_MEMORY_ERROR && rc != CIF_ERROR) { g_stats.inc(sq ? "fault.alloc_sqlite.absorbed" : "fault.alloc_libcif.absorbed"); absorbed_pending = true; ev("%s: %s allocation failure #%ld absorbed -> %s", fn, sq ? "storage-engine" : "library", k, rc_name(rc)); tx_check(fn, rc, k, sq); return rc; }
            ++enum_steps;
            bool do_dump = (k <= 3) || ((k & (k - 1)) == 0) || (!cfg.quick && (k % 8 == 0));
            enum_check_failed_attempt(fn, rc, k, sq, do_dump);
            k = next_k(k, cfg.quick, skip);
        }
        violate("enumeration", fn, "more than 100000 allocation sites in one call");
    }
    if (disk_plan_active) g_disk.armed = true;
    int rc = f();
    if (disk_plan_active) g_disk.armed = false;
    env_check(fn, loc0, rnd0);
    return rc;
}
