// doceng.hpp -- shared pieces of the doc engine: running cif_parse over a simulated stream with recording callbacks
#pragma once
#include "docgen.hpp"

struct ErrEvt { int code; size_t line, col, len; bool text_null; };
enum EvtKind { EV_CIF_START, EV_CIF_END, EV_BLOCK_START, EV_BLOCK_END, EV_FRAME_START, EV_FRAME_END, EV_LOOP_START, EV_LOOP_END, EV_PACKET_START, EV_PACKET_END, EV_ITEM,
               EV_WS, EV_KEYWORD, EV_DATANAME, EV_ERROR, EV_KINDS };
struct HEvt { int kind; std::string what; size_t line = 0; };
struct HandlerProgram {                     // response tables indexed by invocation ordinal (mod table length); empty table = handler absent
    std::vector<int> resp[11];
    bool present = false;
    bool reenter = false;
};
struct ParseOpts {
    bool null_options = false;              // pass options == NULL
    int prefer_cif2 = 0, max_frame_depth = 1, fold_mod = 0, prefix_mod = 0, force_default = 0;
    const char *extra_ws = NULL, *extra_eol = NULL, *default_encoding = NULL;
    int policy = 1;                         // 0: error_callback NULL (die), 1: accept all (recorder), 2: cif_parse_error_ignore, 3: response table
    std::vector<int> policy_table;          // for policy 3: 0 accept, 1 reject with the same code, 2 reject with CIF_CLIENT_ERROR, 3 reject with 1
    int target = 1;                         // 0: syntax only (cif == NULL), 1: pointer to NULL (new CIF), 2: existing CIF supplied by the caller
    bool syntax_callbacks = false;
    HandlerProgram hp;
    bool options_valid() const { return !default_encoding || strcmp(default_encoding, "no-such-encoding") != 0; }
    std::string str() const;
};
struct StreamCfg { size_t chunk = 0; long eio_at = -1, eof_at = -1; };
struct ParseOutcome {
    int rc = 0;
    std::vector<ErrEvt> errs;
    int first_reject = 0;                   // first non-zero value returned by the error callback (0 if none)
    std::vector<HEvt> events;               // handler + syntax (+ error) events in order of delivery
    cif_tp *cif = NULL;                     // the target after the call (owned by the caller of run_parse)
    bool stream_fault_fired = false;
    long cb_calls = 0;
};
// Runs cif_parse once. 'existing' is used when opts.target == 2.
ParseOutcome run_parse(const std::vector<unsigned char> &bytes, const ParseOpts &o, const StreamCfg &sc, cif_tp *existing);
std::string errs_str(const std::vector<ErrEvt> &e, size_t max = 6);
bool rc_defined(int rc);
Knobs gen_knobs(Rng &r, bool allow_default);
// one random corruption of a document (bit flip, replace, delete, duplicate, splice, cut, token or defective construct inserted); eng_doc.cpp
void doc_corrupt(std::vector<unsigned char> &b, Rng &r, const Layout *lay);
