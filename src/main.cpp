// main.cpp -- cifsim driver: seeded search over many simulated runs on forked in-process workers, crash triage,
// replay gate (same plan twice, fresh process), minimisation (ddmin over ops + fault/knob/env simplification),
// known-finding matching, evidence output.
#include "sim.hpp"
#include <unistd.h>
#include <signal.h>
#include <poll.h>
#include <fcntl.h>
#include <sys/wait.h>
#include <sys/stat.h>
#include <time.h>
#include <errno.h>

// ------------------------------------------------------------------------------------------------ property table
extern RunResult eng_api_run(const RunSpec &);
extern RunResult eng_doc_run(const RunSpec &);
extern RunResult eng_value_run(const RunSpec &);
extern RunResult eng_walk_run(const RunSpec &);
const PropInfo g_props[] = {
    // id, engine, level, quick runs, thorough runs, quick cap s, thorough cap s, rule
    {"C01", "doc", "exploration", 60000, 1500000, 90, 1800, "a case is one seeded (abstract document, layout, buffer-knob setting) parsed through the simulated stream; distinct = distinct (token kind, presentation kind, following token kind) triples plus distinct (knob bucket, probe) pairs observed"},
    {"C02", "api", "exploration", 20000, 500000, 90, 1800, "a case is one seeded API history followed by cif_write to the simulated output stream (short writes) and cif_parse of those bytes; distinct = distinct (op kind, result code, pre-state class) triples plus distinct (value presentation chosen by the writer, string feature class) pairs"},
    {"C03", "doc", "exploration", 40000, 1000000, 90, 1800, "a case is one seeded (byte string, option set, error-callback decision table, stream fault) parsed once or twice; distinct = distinct (first error code, option class, fault kind, rc class) tuples"},
    {"C04", "api", "exploration", 25000, 600000, 90, 1800, "a case is one seeded API history over 1-3 managed CIFs mirrored in the reference model; distinct = distinct (op kind, result code, pre-state class) triples"},
    {"C05", "api", "exploration", 20000, 500000, 90, 1800, "a case is one seeded API history with planted failing calls (offending element at a chosen position, inside or outside an iterator transaction) or a storage-engine fault; distinct = distinct (planted failure kind, position, inside-transaction flag, result code) tuples"},
    {"C06", "api", "exploration", 30000, 700000, 90, 1800, "a case is one seeded loop plus a next/update/remove call sequence (life cycle respected or not) ended by close or abort; distinct = distinct (iterator op, iterator state, result code, loop shape class) tuples"},
    {"C07", "api", "exploration", 25000, 600000, 90, 1800, "a case is one seeded value stored by one of five paths, caller object then mutated or freed, read back by three paths; distinct = distinct (value shape class, store path, read path, spill flag) tuples"},
    {"C08", "doc", "exploration", 12000, 300000, 90, 1800, "a case is one base document parsed at shipped knobs and again under 3-6 transformations (terminator rewriting, buffer knobs, padding); distinct = distinct (transformation kind, knob bucket, probe fired, outcome class) tuples"},
    {"C11", "doc", "exploration", 40000, 1000000, 90, 1800, "a case is one cell of (magic, BOM, prefer_cif2, encoding, force flag, default converter) applied to a dialect-probe text; distinct = distinct cells"},
    {"C12", "doc", "exploration", 60000, 1500000, 90, 1800, "a case is one well-formed host document with one planted defect of a documented class at a seeded position; distinct = distinct (defect class, position kind, dialect) triples"},
    {"C13", "api", "exploration", 25000, 600000, 90, 1800, "as C02 with cif_version=1 output and CIF 1.1 re-parse; distinct = distinct (op kind, result code, pre-state class) triples plus distinct (writer outcome, refusal cause set) pairs"},
    {"C14", "walk", "exploration", 40000, 1000000, 90, 1800, "a case is one seeded CIF plus one handler program (response table per callback kind, optional re-entrant queries); distinct = distinct (callback kind, response, depth class) triples plus distinct CIF shape classes"},
    {"C15", "doc", "exploration", 80000, 2000000, 90, 1800, "a case is one document plus one handler program parsed in storing and syntax-only mode; distinct = distinct (callback kind, response, mode) triples"},
    {"C16", "mix", "exploration", 16000, 800000, 90, 1800, "a case is one run of any engine's workload with semantic oracles off and the sanitizer / leak / locale / rounding monitors on; distinct = distinct (engine, op kind, result code) triples"},
    {"C17", "mix", "fault_enumeration", 2500, 150000, 90, 1800, "a case is one (API call in a seeded history, allocator, failure index k) step; for each call k runs 1,2,... until the fault no longer fires (beyond a dense prefix - 24 in the quick tier, 200 in the thorough tier - k advances in strides that grow with k); distinct = distinct (API function, allocator, k, result code) tuples"},
    {"C19", "value", "exploration", 200000, 5000000, 90, 1800, "a case is one seeded history of value/list/table/packet operations mirrored in the value model; distinct = distinct (op kind, result code, operand kind class) triples"},
    {NULL, NULL, NULL, 0, 0, 0, 0, NULL}
};
const PropInfo *prop_info(const std::string &p) { for (const PropInfo *i = g_props; i->id; ++i) if (p == i->id) return i; return NULL; }
extern RunResult eng_mix_run(const RunSpec &);
EngineFn engine_for(const std::string &prop) {
    const PropInfo *pi = prop_info(prop);
    if (!pi) return NULL;
    std::string e = pi->engine;
    if (e == "api") return eng_api_run;
    if (e == "doc") return eng_doc_run;
    if (e == "value") return eng_value_run;
    if (e == "walk") return eng_walk_run;
    if (e == "mix") return eng_mix_run;
    return NULL;
}

// ------------------------------------------------------------------------------------------------ sanitizer defaults
extern "C" __attribute__((used)) const char *__asan_default_options() {
    return "exitcode=77:detect_leaks=0:abort_on_error=0:allocator_may_return_null=1:detect_stack_use_after_return=0:handle_abort=1";
}
extern "C" __attribute__((used)) const char *__ubsan_default_options() { return "print_stacktrace=1:halt_on_error=1:exitcode=77"; }

// ------------------------------------------------------------------------------------------------ one run, in this process
int g_plan_n_ops = 0; std::vector<int> g_plan_fault_ops;
static int g_child_pipe = -1;
void plan_ready() {
    if (g_child_pipe < 0) return;
    std::string m = "N\t" + std::to_string(g_plan_n_ops) + "\t";
    for (size_t i = 0; i < g_plan_fault_ops.size(); ++i) m += (i ? "," : "") + std::to_string(g_plan_fault_ops[i]);
    m += "\n";
    ssize_t w = write(g_child_pipe, m.data(), m.size()); (void) w;
}
static volatile sig_atomic_t g_in_run = 0;
extern "C" void __gcov_dump(void) __attribute__((weak));   // present only in the coverage build (bin/coverage)
static inline void cov_flush() { if (__gcov_dump) __gcov_dump(); }
static void on_alarm(int) { static const char m[] = "cifsim: run exceeded its wall-clock backstop\n"; ssize_t r = write(2, m, sizeof m - 1); (void) r; _exit(79); }
static double now_s() { struct timespec ts; clock_gettime(CLOCK_MONOTONIC, &ts); return ts.tv_sec + ts.tv_nsec * 1e-9; }

static RunResult execute_run(const RunSpec &spec, int alarm_s) {
    EngineFn fn = engine_for(spec.prop);
    RunResult res;
    if (!fn) { res.violated = true; res.clause = "harness.no_engine"; return res; }
    seams_global_init();
    g_disk.reset_run(); g_env.reset(); Knobs::reset(); g_lalloc.disarm(); g_salloc.disarm();
    g_log.reset(spec.verbose);
    seams_seed_vfs(hmix(run_seed_of(spec), hstr("vfs")));
    uint64_t ev0 = g_stats.events;
    g_plan_n_ops = 0; g_plan_fault_ops.clear();
    if (alarm_s > 0) alarm((unsigned) alarm_s);
    g_in_run = 1;
    try {
        res = fn(spec);
    } catch (Violation &v) {
        res.violated = true; res.clause = v.clause; res.sig = v.sig; res.detail = v.detail; res.op_index = v.op_index;
    }
    g_in_run = 0;
    if (alarm_s > 0) alarm(0);
    g_lalloc.disarm(); g_salloc.disarm(); g_disk.disarm(); g_env.reset(); Knobs::reset();
    probes_collect();
    res.fingerprint = g_log.hash;
    res.n_ops = g_plan_n_ops; res.fault_ops = g_plan_fault_ops;
    res.events = g_stats.events - ev0;
    return res;
}

// ------------------------------------------------------------------------------------------------ replay files
struct ReplayFile { RunSpec spec; std::string clause, sig; uint64_t fingerprint = 0; };
static bool read_replay(const std::string &path, ReplayFile &rf) {
    FILE *f = fopen(path.c_str(), "r");
    if (!f) return false;
    char line[65536];
    while (fgets(line, sizeof line, f)) {
        std::string l(line);
        while (!l.empty() && (l.back() == '\n' || l.back() == '\r')) l.pop_back();
        if (l.empty() || l[0] == '#') continue;
        size_t eq = l.find('=');
        if (eq == std::string::npos) continue;
        std::string k = l.substr(0, eq), v = l.substr(eq + 1);
        if (k == "property") rf.spec.prop = v;
        else if (k == "seed") rf.spec.seed = strtoull(v.c_str(), NULL, 10);
        else if (k == "run") rf.spec.run = strtoull(v.c_str(), NULL, 10);
        else if (k == "tier") rf.spec.tier = v;
        else if (k == "clause") rf.clause = v;
        else if (k == "sig") rf.sig = v;
        else if (k == "fingerprint") rf.fingerprint = strtoull(v.c_str(), NULL, 16);
        else rf.spec.mods.parse_kv(k, v);
    }
    fclose(f);
    return !rf.spec.prop.empty();
}
static bool write_replay(const std::string &path, const RunSpec &spec, const RunResult &r, const std::string &trace) {
    FILE *f = fopen(path.c_str(), "w");
    if (!f) return false;
    fprintf(f, "# cifsim replay file -- re-execute with: /verif/bin/replay %s\n", path.c_str());
    fprintf(f, "# the plan is regenerated from (property, seed, run, tier); the lines below disable ops / faults / knobs\n");
    fprintf(f, "property=%s\nseed=%llu\nrun=%llu\ntier=%s\n", spec.prop.c_str(), (unsigned long long) spec.seed, (unsigned long long) spec.run, spec.tier.c_str());
    fputs(spec.mods.str().c_str(), f);
    fprintf(f, "clause=%s\nsig=%s\nfingerprint=%016llx\n", r.clause.c_str(), r.sig.c_str(), (unsigned long long) r.fingerprint);
    fprintf(f, "# detail: ");
    for (char c : r.detail) fputc(c == '\n' ? ' ' : c, f);
    fprintf(f, "\n# ---- schedule / fault trace of the (minimised) plan ----\n");
    size_t i = 0;
    while (i < trace.size()) { size_t j = trace.find('\n', i); if (j == std::string::npos) j = trace.size(); fprintf(f, "# %s\n", trace.substr(i, j - i).c_str()); i = j + 1; }
    fclose(f);
    return true;
}

// ------------------------------------------------------------------------------------------------ child evaluation (fork)
struct ChildOutcome { bool ok = false; bool violated = false; std::string clause, sig, detail, trace; int op_index = -1; int n_ops = 0; std::vector<int> fault_ops; uint64_t fingerprint = 0; int exit_status = 0; std::string stderr_tail; };
static std::string g_tmpdir;
static std::string enc(const std::string &s) { std::string o; for (char c : s) { if (c == '\n') o += "\\n"; else if (c == '\t') o += "\\t"; else if (c == '\\') o += "\\\\"; else o += c; } return o; }
static std::string dec(const std::string &s) { std::string o; for (size_t i = 0; i < s.size(); ++i) { if (s[i] == '\\' && i + 1 < s.size()) { ++i; o += s[i] == 'n' ? '\n' : s[i] == 't' ? '\t' : s[i]; } else o += s[i]; } return o; }
static std::string read_tail(const std::string &path, size_t max = 16384) {
    FILE *f = fopen(path.c_str(), "r"); if (!f) return "";
    fseek(f, 0, SEEK_END); long n = ftell(f); long from = n > (long) max ? n - (long) max : 0; fseek(f, from, SEEK_SET);
    std::string s((size_t) (n - from), 0); size_t got = fread(&s[0], 1, s.size(), f); s.resize(got); fclose(f); return s;
}
// derive clause + signature from how a child died
static void classify_death(const std::string &prop, int status, const std::string &errtxt, std::string &clause, std::string &sig, std::string &detail) {
    int code = WIFEXITED(status) ? WEXITSTATUS(status) : -1;
    if (code == 78) { clause = prop + ".terminates"; sig = "livelock:stream-polled-after-end"; detail = "the library kept reading a stream that had reported EOF/error (10000 further read calls)"; return; }
    if (code == 79) { clause = prop + ".terminates"; sig = "timeout"; detail = "run exceeded the wall-clock backstop"; return; }
    clause = prop + ".memory";
    std::string kind = "crash", where;
    size_t p = errtxt.find("SUMMARY: ");
    if (p != std::string::npos) {
        size_t e = errtxt.find('\n', p); std::string line = errtxt.substr(p + 9, e == std::string::npos ? std::string::npos : e - p - 9);
        // "AddressSanitizer: heap-buffer-overflow /path/file.c:123 in func" | "UndefinedBehaviorSanitizer: undefined-behavior file.c:12:3 in"
        size_t c = line.find(": "); std::string rest = c == std::string::npos ? line : line.substr(c + 2);
        size_t sp = rest.find(' '); kind = rest.substr(0, sp);
        size_t in = rest.find(" in "); if (in != std::string::npos) where = rest.substr(in + 4);
        if (where.empty() && sp != std::string::npos) { std::string loc = rest.substr(sp + 1); size_t sl = loc.rfind('/'); if (sl != std::string::npos) loc = loc.substr(sl + 1); size_t col = loc.find(':'); where = loc.substr(0, col); }
        detail = line;
    } else if (WIFSIGNALED(status)) { kind = strprintf("signal%d", WTERMSIG(status)); detail = "worker killed by signal"; }
    else detail = strprintf("worker exited with status %d", code);
    // first libcif frame of the report, if any (frames look like "#1 0x... in func /path/src/file.c:NN")
    std::string frame;
    size_t q = 0;
    while ((q = errtxt.find(" in ", q)) != std::string::npos) {
        size_t e = errtxt.find('\n', q); std::string ln = errtxt.substr(q + 4, e == std::string::npos ? std::string::npos : e - q - 4);
        if (ln.find("/lib.") != std::string::npos && ln.find("/src/") != std::string::npos) { frame = ln.substr(0, ln.find(' ')); break; }
        q += 4;
    }
    if (!frame.empty()) where = frame;
    size_t rt = errtxt.find("runtime error: ");
    if (rt != std::string::npos && (kind == "undefined-behavior" || kind == "crash")) { size_t e = errtxt.find('\n', rt); std::string m = errtxt.substr(rt + 15, e - rt - 15); for (char &ch : m) if (ch >= '0' && ch <= '9') ch = '#'; kind = "ub:" + m.substr(0, 40); }
    sig = kind + "@" + where;
}
static ChildOutcome run_in_child(const RunSpec &spec, int alarm_s, bool want_trace) {
    ChildOutcome out;
    int pfd[2];
    if (pipe(pfd) != 0) return out;
    static int serial = 0;
    std::string errpath = g_tmpdir + strprintf("/child.%d.%d.err", (int) getpid(), ++serial);
    fflush(NULL);
    pid_t pid = fork();
    if (pid < 0) { close(pfd[0]); close(pfd[1]); return out; }
    if (pid == 0) {
        close(pfd[0]);
        int efd = open(errpath.c_str(), O_WRONLY | O_CREAT | O_TRUNC, 0644);
        if (efd >= 0) { dup2(efd, 2); close(efd); }
        signal(SIGALRM, on_alarm);
        g_child_pipe = pfd[1];
        RunSpec s = spec; s.verbose = want_trace;
        if (want_trace) g_log.side = fopen((errpath + ".trace").c_str(), "w");
        RunResult r = execute_run(s, alarm_s);
        std::string msg = strprintf("R\t%d\t%s\t%s\t%d\t%d\t%016llx\t%s\t", r.violated ? 1 : 0, enc(r.clause).c_str(), enc(r.sig).c_str(), r.op_index, r.n_ops,
                                    (unsigned long long) r.fingerprint, enc(r.detail).c_str());
        for (size_t i = 0; i < r.fault_ops.size(); ++i) msg += (i ? "," : "") + std::to_string(r.fault_ops[i]);
        msg += "\t";
        if (want_trace) { std::string t; for (auto &l : g_log.text) { t += l; t += "\n"; } msg += enc(t); }
        msg += "\n";
        size_t off = 0; while (off < msg.size()) { ssize_t w = write(pfd[1], msg.data() + off, msg.size() - off); if (w <= 0) break; off += (size_t) w; }
        close(pfd[1]);
        cov_flush(); _exit(0);
    }
    close(pfd[1]);
    std::string buf; char tmp[65536]; ssize_t n;
    while ((n = read(pfd[0], tmp, sizeof tmp)) > 0) buf.append(tmp, (size_t) n);
    close(pfd[0]);
    int status = 0; waitpid(pid, &status, 0);
    out.exit_status = status;
    out.stderr_tail = read_tail(errpath);
    std::string side_trace = want_trace ? read_tail(errpath + ".trace", 1 << 20) : std::string();
    unlink(errpath.c_str()); unlink((errpath + ".trace").c_str());
    // an early "N <n_ops> <fault ops>" line precedes the result line
    if (buf.size() > 2 && buf[0] == 'N') {
        size_t nl = buf.find('\n'); std::string nline = buf.substr(0, nl); buf = nl == std::string::npos ? std::string() : buf.substr(nl + 1);
        size_t t1 = nline.find('\t'), t2 = nline.find('\t', t1 + 1);
        if (t1 != std::string::npos) { out.n_ops = atoi(nline.substr(t1 + 1).c_str()); if (t2 != std::string::npos) { std::string fo = nline.substr(t2 + 1); size_t k = 0; while (k < fo.size()) { size_t j = fo.find(',', k); if (j == std::string::npos) j = fo.size(); if (j > k) out.fault_ops.push_back(atoi(fo.substr(k, j - k).c_str())); k = j + 1; } } }
    }
    std::vector<int> early_fault_ops = out.fault_ops; int early_n_ops = out.n_ops;
    if (WIFEXITED(status) && WEXITSTATUS(status) == 0 && buf.size() > 2 && buf[0] == 'R') {
        std::vector<std::string> f; size_t i = 0;
        while (i <= buf.size()) { size_t j = buf.find('\t', i); if (j == std::string::npos) { f.push_back(buf.substr(i)); break; } f.push_back(buf.substr(i, j - i)); i = j + 1; }
        if (f.size() >= 10) {
            out.ok = true; out.violated = f[1] == "1"; out.clause = dec(f[2]); out.sig = dec(f[3]); out.op_index = atoi(f[4].c_str()); out.n_ops = atoi(f[5].c_str());
            out.fingerprint = strtoull(f[6].c_str(), NULL, 16); out.detail = dec(f[7]);
            out.fault_ops.clear();
            size_t k = 0; while (k < f[8].size()) { size_t j = f[8].find(',', k); if (j == std::string::npos) j = f[8].size(); if (j > k) out.fault_ops.push_back(atoi(f[8].substr(k, j - k).c_str())); k = j + 1; }
            std::string t = f[9]; while (!t.empty() && t.back() == '\n') t.pop_back();
            out.trace = dec(t);
        }
    } else {
        out.ok = true; out.violated = true;
        classify_death(spec.prop, status, out.stderr_tail, out.clause, out.sig, out.detail);
        out.fingerprint = hstr(out.sig.c_str());
        out.trace = side_trace + "(the run ended here: " + out.detail + ")";
        out.n_ops = early_n_ops; out.fault_ops = early_fault_ops;
    }
    return out;
}

// ------------------------------------------------------------------------------------------------ minimisation
struct Shrinker {
    RunSpec spec; std::string clause, sig; int alarm_s; int evals = 0, max_evals = 260;
    bool still_fails(const Mods &m, ChildOutcome *o = NULL) {
        if (evals >= max_evals) return false;
        ++evals;
        RunSpec s = spec; s.mods = m;
        ChildOutcome c = run_in_child(s, alarm_s, false);
        bool same = c.ok && c.violated && c.clause == clause && c.sig == sig;
        if (same && o) *o = c;
        return same;
    }
    Mods run(int n_ops, const std::vector<int> &fault_ops) {
        Mods cur = spec.mods;
        { Mods t = cur; t.no_faults = true; if (!cur.no_faults && still_fails(t)) cur = t; }
        { Mods t = cur; t.default_knobs = true; if (!cur.default_knobs && still_fails(t)) cur = t; }
        { Mods t = cur; t.default_env = true; if (!cur.default_env && still_fails(t)) cur = t; }
        { Mods t = cur; t.no_spill = true; if (!cur.no_spill && still_fails(t)) cur = t; }
        // ddmin over enabled ops
        std::vector<int> live;
        for (int i = 0; i < n_ops; ++i) if (!cur.off.count(i)) live.push_back(i);
        // first try cutting the tail after the failing op cheaply: binary search on max_ops is subsumed by ddmin chunks
        size_t n = 2;
        while (live.size() >= 1 && evals < max_evals) {
            size_t chunk = (live.size() + n - 1) / n;
            bool reduced = false;
            for (size_t start = 0; start < live.size() && evals < max_evals; start += chunk) {
                Mods t = cur;
                size_t end = std::min(live.size(), start + chunk);
                for (size_t k = start; k < end; ++k) t.off.insert(live[k]);
                if (still_fails(t)) {
                    cur = t;
                    live.erase(live.begin() + (long) start, live.begin() + (long) end);
                    n = std::max<size_t>(n - 1, 2);
                    reduced = true;
                    break;
                }
            }
            if (!reduced) { if (chunk <= 1) break; n = std::min(live.size(), n * 2); }
        }
        // per-op: drop attached faults, simplify operands
        if (!cur.no_faults) for (int f : fault_ops) { if (cur.off.count(f)) continue; Mods t = cur; t.nofault.insert(f); if (still_fails(t)) cur = t; }
        for (int i : live) { if (evals >= max_evals) break; Mods t = cur; t.simple.insert(i); if (still_fails(t)) cur = t; }
        return cur;
    }
};

// ------------------------------------------------------------------------------------------------ known findings
struct Known { std::string prop, clause, sig, text; };
static std::vector<Known> load_known(const std::string &path) {
    std::vector<Known> k;
    FILE *f = fopen(path.c_str(), "r"); if (!f) return k;
    char line[8192];
    while (fgets(line, sizeof line, f)) {
        std::string l(line); while (!l.empty() && (l.back() == '\n' || l.back() == '\r')) l.pop_back();
        if (l.compare(0, 8, "finding:") != 0) continue;
        Known e; size_t sep = l.find(" :: "); e.text = sep == std::string::npos ? "" : l.substr(sep + 4);
        std::string head = l.substr(8, sep == std::string::npos ? std::string::npos : sep - 8);
        auto field = [&](const char *name) { std::string key = std::string(" ") + name + "="; size_t p = head.find(key); if (p == std::string::npos) return std::string(); p += key.size(); size_t e2 = head.find(" clause=", p); size_t e3 = head.find(" sig=", p); size_t e4 = std::min(e2, e3); if (std::string(name) == "sig") e4 = std::string::npos; return head.substr(p, e4 == std::string::npos ? std::string::npos : e4 - p); };
        e.prop = field("property"); e.clause = field("clause"); e.sig = field("sig");
        k.push_back(e);
    }
    fclose(f);
    return k;
}

// ------------------------------------------------------------------------------------------------ JSON helpers
static std::string jstr(const std::string &s) {
    std::string o = "\"";
    for (unsigned char c : s) { if (c == '"') o += "\\\""; else if (c == '\\') o += "\\\\"; else if (c == '\n') o += "\\n"; else if (c == '\t') o += "\\t"; else if (c < 0x20) o += strprintf("\\u%04x", c); else o += (char) c; }
    return o + "\"";
}

// ------------------------------------------------------------------------------------------------ the search
struct Worker { pid_t pid = -1; int fd = -1; std::string buf; long current = -1; long next_index; long done = 0; int id = 0; std::string errpath; bool finished = false; std::map<std::string, uint64_t> counters; uint64_t events = 0; };
struct Candidate { uint64_t run; std::string clause, sig, detail; bool from_crash; };

static void worker_main(int wfd, int id, int nworkers, const RunSpec &base, long total_runs, int alarm_s, double deadline, long start_index, int nsamples) {
    signal(SIGALRM, on_alarm);
    seams_global_init();
    FILE *out = fdopen(wfd, "w");
    auto flush_stats = [&]() {
        std::string l = "T\t" + std::to_string((unsigned long long) g_stats.events);
        for (auto &kv : g_stats.counters) l += "\t" + kv.first + "=" + std::to_string((unsigned long long) kv.second);
        l += "\n"; fputs(l.c_str(), out);
        if (!g_stats.pending_distinct.empty()) { std::string c = "C"; for (uint64_t h : g_stats.pending_distinct) c += strprintf("\t%llx", (unsigned long long) h); c += "\n"; fputs(c.c_str(), out); g_stats.pending_distinct.clear(); }
        fflush(out);
    };
    long n = 0;
    for (long i = start_index; i < total_runs; i += nworkers) {
        if (now_s() > deadline) break;
        RunSpec s = base; s.run = (uint64_t) i; s.verbose = (i < nsamples);
        fprintf(out, "S\t%ld\n", i); fflush(out);
        RunResult r = execute_run(s, alarm_s);
        if (r.violated) {
            flush_stats();
            fprintf(out, "V\t%ld\t%s\t%s\t%s\n", i, enc(r.clause).c_str(), enc(r.sig).c_str(), enc(r.detail).c_str()); fflush(out);
            cov_flush(); _exit(3);     // state after a violation is not trusted: the parent starts a fresh worker
        }
        if (s.verbose) { std::string t; size_t k = 0; for (auto &l : g_log.text) { if (k++ > 40) { t += "..."; break; } t += l; t += "\n"; } fprintf(out, "P\t%ld\t%s\n", i, enc(t).c_str()); }
        fprintf(out, "D\t%ld\t%016llx\n", i, (unsigned long long) r.fingerprint);
        if (++n % 64 == 0) flush_stats(); else fflush(out);
    }
    flush_stats();
    fprintf(out, "E\n"); fflush(out);
    cov_flush(); _exit(0);
}

static int cmd_run(int argc, char **argv) {
    RunSpec base; std::string evidence_path, known_path = "/verif/known-findings.txt", replay_dir = "/verif/replays";
    int workers = 0; long runs = -1; int cap_s = -1; bool print_fps = false; int nsamples = 3;
    for (int i = 0; i < argc; ++i) {
        std::string a = argv[i];
        auto nextv = [&]() { return std::string(i + 1 < argc ? argv[++i] : ""); };
        if (a == "--prop") base.prop = nextv(); else if (a == "--tier") base.tier = nextv(); else if (a == "--seed") base.seed = strtoull(nextv().c_str(), NULL, 10);
        else if (a == "--workers") workers = atoi(nextv().c_str()); else if (a == "--runs") runs = atol(nextv().c_str()); else if (a == "--cap-s") cap_s = atoi(nextv().c_str());
        else if (a == "--evidence") evidence_path = nextv(); else if (a == "--known") known_path = nextv(); else if (a == "--replay-dir") replay_dir = nextv();
        else if (a == "--fingerprints") print_fps = true; else if (a == "--tmpdir") g_tmpdir = nextv(); else if (a == "--samples") nsamples = atoi(nextv().c_str());
    }
    const PropInfo *pi = prop_info(base.prop);
    if (!pi) { fprintf(stderr, "cifsim: unknown property %s\n", base.prop.c_str()); return 2; }
    bool thorough = base.tier == "thorough";
    if (runs < 0) runs = thorough ? pi->thorough_runs : pi->quick_runs;
    if (cap_s < 0) cap_s = thorough ? pi->thorough_cap_s : pi->quick_cap_s;
    if (workers <= 0) { long nc = sysconf(_SC_NPROCESSORS_ONLN); workers = (int) std::min<long>(16, std::max<long>(1, nc)); }
    if (g_tmpdir.empty()) g_tmpdir = "/verif/build/tmp";
    mkdir(g_tmpdir.c_str(), 0755); mkdir(replay_dir.c_str(), 0755);
    int run_alarm = thorough ? 60 : 20;
    double t0 = now_s(), deadline = t0 + cap_s;
    printf("cifsim: property=%s tier=%s seed=%llu runs=%ld workers=%d cap=%ds\n", base.prop.c_str(), base.tier.c_str(), (unsigned long long) base.seed, runs, workers, cap_s);
    fflush(stdout);

    std::vector<Worker> ws((size_t) workers);
    std::vector<Candidate> cands;
    std::set<long> crashed_runs;
    std::map<std::string, uint64_t> counters; uint64_t events = 0; std::unordered_set<uint64_t> distinct; long done_runs = 0;
    std::vector<std::string> samples; std::map<long, uint64_t> fps;
    auto spawn = [&](Worker &w, long start) {
        int pfd[2]; if (pipe(pfd) != 0) { perror("pipe"); exit(2); }
        w.errpath = g_tmpdir + strprintf("/worker.%d.%d.err", (int) getpid(), w.id);
        fflush(NULL);
        pid_t pid = fork();
        if (pid < 0) { perror("fork"); exit(2); }
        if (pid == 0) {
            close(pfd[0]);
            for (auto &o : ws) if (o.fd >= 0) close(o.fd);
            int efd = open(w.errpath.c_str(), O_WRONLY | O_CREAT | O_TRUNC, 0644); if (efd >= 0) { dup2(efd, 2); close(efd); }
            worker_main(pfd[1], w.id, workers, base, runs, run_alarm, deadline, start, nsamples);
            cov_flush(); _exit(0);
        }
        close(pfd[1]); w.pid = pid; w.fd = pfd[0]; w.buf.clear(); w.current = -1; w.finished = false; w.counters.clear(); w.events = 0;
    };
    auto absorb = [&](Worker &w) { for (auto &kv : w.counters) counters[kv.first] += kv.second; events += w.events; w.counters.clear(); w.events = 0; };
    for (int i = 0; i < workers; ++i) { ws[(size_t) i].id = i; ws[(size_t) i].next_index = i; spawn(ws[(size_t) i], i); }
    int active = workers;
    const size_t max_cands = getenv("CIFSIM_MAX_CANDS") ? (size_t) atol(getenv("CIFSIM_MAX_CANDS")) : 12;   // development aid: collect more distinct violations per search
    // one candidate per (clause, signature): repeated sightings are only counted, so that a frequent (e.g. known) finding
    // neither ends the search early nor crowds out other violations
    std::map<std::string, long> cand_sightings;
    auto add_cand = [&](const Candidate &c) { if (cand_sightings[c.clause + "|" + c.sig]++ == 0 && cands.size() < max_cands) cands.push_back(c); };
    while (active > 0) {
        std::vector<struct pollfd> pf; std::vector<int> idx;
        for (int i = 0; i < workers; ++i) if (ws[(size_t) i].fd >= 0) { pf.push_back({ws[(size_t) i].fd, POLLIN, 0}); idx.push_back(i); }
        if (pf.empty()) break;
        int pr = poll(pf.data(), pf.size(), 1000);
        if (pr < 0 && errno != EINTR) break;
        for (size_t k = 0; k < pf.size(); ++k) {
            if (!(pf[k].revents & (POLLIN | POLLHUP | POLLERR))) continue;
            Worker &w = ws[(size_t) idx[k]];
            char tmp[65536]; ssize_t n = read(w.fd, tmp, sizeof tmp);
            if (n > 0) {
                w.buf.append(tmp, (size_t) n);
                size_t nl;
                while ((nl = w.buf.find('\n')) != std::string::npos) {
                    std::string line = w.buf.substr(0, nl); w.buf.erase(0, nl + 1);
                    std::vector<std::string> f; size_t i = 0;
                    while (i <= line.size()) { size_t j = line.find('\t', i); if (j == std::string::npos) { f.push_back(line.substr(i)); break; } f.push_back(line.substr(i, j - i)); i = j + 1; }
                    if (f[0] == "S" && f.size() > 1) w.current = atol(f[1].c_str());
                    else if (f[0] == "D" && f.size() > 2) { ++done_runs; w.next_index = atol(f[1].c_str()) + workers; if (print_fps) fps[atol(f[1].c_str())] = strtoull(f[2].c_str(), NULL, 16); w.current = -1; }
                    else if (f[0] == "T") { w.counters.clear(); w.events = f.size() > 1 ? strtoull(f[1].c_str(), NULL, 10) : 0; for (size_t q = 2; q < f.size(); ++q) { size_t eq = f[q].find('='); if (eq != std::string::npos) w.counters[f[q].substr(0, eq)] = strtoull(f[q].substr(eq + 1).c_str(), NULL, 10); } }
                    else if (f[0] == "C") { for (size_t q = 1; q < f.size(); ++q) distinct.insert(strtoull(f[q].c_str(), NULL, 16)); }
                    else if (f[0] == "P" && f.size() > 2) { if (samples.size() < 5) samples.push_back(strprintf("run %s: ", f[1].c_str()) + dec(f[2])); }
                    else if (f[0] == "V" && f.size() > 4) { add_cand({(uint64_t) atol(f[1].c_str()), dec(f[2]), dec(f[3]), dec(f[4]), false}); w.next_index = atol(f[1].c_str()) + workers; w.current = -1; ++done_runs; }
                    else if (f[0] == "E") w.finished = true;
                }
            } else {
                close(w.fd); w.fd = -1;
                int status = 0; waitpid(w.pid, &status, 0);
                absorb(w);
                bool normal = w.finished && WIFEXITED(status) && WEXITSTATUS(status) == 0;
                bool after_violation = WIFEXITED(status) && WEXITSTATUS(status) == 3;
                if (!normal && !after_violation && w.current >= 0) {
                    std::string clause, sig, detail; classify_death(base.prop, status, read_tail(w.errpath), clause, sig, detail);
                    add_cand({(uint64_t) w.current, clause, sig, detail, true});
                    w.next_index = w.current + workers; ++done_runs;
                } else if (!normal && !after_violation) {
                    fprintf(stderr, "cifsim: worker %d died outside a run (status %d)\n%s\n", w.id, status, read_tail(w.errpath, 2000).c_str());
                    unlink(w.errpath.c_str());
                    return 2;
                }
                unlink(w.errpath.c_str());
                if (!normal && w.next_index < runs && now_s() < deadline && cands.size() < max_cands) spawn(w, w.next_index); else --active;
            }
        }
    }
    double wall_search = now_s() - t0;

    // ---- triage of candidates: replay gate, minimise, known-finding match
    std::vector<Known> known = load_known(known_path);
    std::set<std::string> seen_sigs; int violations = 0, known_seen = 0, harness_faults = 0, transient_timeouts = 0;
    std::vector<std::string> out_lines; std::vector<std::string> known_lines;
    for (auto &c : cands) {
        std::string key = c.clause + "|" + c.sig;
        if (seen_sigs.count(key)) continue;
        RunSpec s = base; s.run = c.run;
        ChildOutcome a = run_in_child(s, run_alarm, false), b = run_in_child(s, run_alarm, false);
        if (c.sig == "timeout" && a.ok && b.ok && !a.violated && !b.violated && a.fingerprint == b.fingerprint) {
            // wall-clock time is the one input the simulator does not own: a run that hit the backstop during the search but completes,
            // twice and identically, when re-executed was slowed down by machine load -- not a violation and not a harness fault
            printf("cifsim: run %llu exceeded the wall-clock backstop during the search but completes normally when re-executed (machine load); ignored\n", (unsigned long long) c.run); fflush(stdout);
            ++transient_timeouts; continue;
        }
        if (!(a.ok && b.ok && a.violated && b.violated && a.clause == b.clause && a.sig == b.sig && a.fingerprint == b.fingerprint)) {
            fprintf(stdout, "HARNESS-FAULT property=%s run=%llu: violation %s [%s] did not reproduce identically (first: %d %s [%s] fp=%016llx; second: %d %s [%s] fp=%016llx)\n", base.prop.c_str(), (unsigned long long) c.run,
                    c.clause.c_str(), c.sig.c_str(), a.violated, a.clause.c_str(), a.sig.c_str(), (unsigned long long) a.fingerprint, b.violated, b.clause.c_str(), b.sig.c_str(), (unsigned long long) b.fingerprint);
            ++harness_faults; continue;
        }
        key = a.clause + "|" + a.sig;
        if (seen_sigs.count(key)) continue;
        seen_sigs.insert(key);
        // unminimised replay file
        RunResult rr; rr.clause = a.clause; rr.sig = a.sig; rr.detail = a.detail; rr.fingerprint = a.fingerprint;
        std::string stem = replay_dir + strprintf("/%s-%llu-%llu", base.prop.c_str(), (unsigned long long) base.seed, (unsigned long long) c.run);
        write_replay(stem + ".full.plan", s, rr, "");
        Shrinker sh; sh.spec = s; sh.clause = a.clause; sh.sig = a.sig; sh.alarm_s = std::min(run_alarm, 10);
        if (a.sig == "timeout") { sh.alarm_s = 4; sh.max_evals = 40; }
        printf("cifsim: candidate %s [%s] at run %llu reproduced; minimising (%d ops)\n", a.clause.c_str(), a.sig.c_str(), (unsigned long long) c.run, a.n_ops); fflush(stdout);
        Mods m = sh.run(a.n_ops, a.fault_ops);
        RunSpec ms = s; ms.mods = m;
        ChildOutcome fin = run_in_child(ms, run_alarm, true);
        if (!(fin.ok && fin.violated && fin.clause == a.clause && fin.sig == a.sig)) { ms = s; fin = run_in_child(ms, run_alarm, true); }
        rr.detail = fin.detail; rr.fingerprint = fin.fingerprint;
        std::string path = stem + ".plan";
        write_replay(path, ms, rr, fin.trace);
        // fresh-process gate on the minimised file
        std::string cmd = std::string("/proc/self/exe");
        char self[4096]; ssize_t sl = readlink("/proc/self/exe", self, sizeof self - 1); self[sl > 0 ? sl : 0] = 0;
        std::string full = std::string(self) + " replay " + path + " --quiet --tmpdir " + g_tmpdir + " >/dev/null 2>&1";
        int st = system(full.c_str());
        int ec = WIFEXITED(st) ? WEXITSTATUS(st) : -1;
        if (ec != 1 && a.sig == "timeout") { printf("cifsim: the time-out of run %llu does not reproduce in a fresh process (machine load); ignored\n", (unsigned long long) c.run); fflush(stdout); ++transient_timeouts; continue; }
        if (ec != 1) { fprintf(stdout, "HARNESS-FAULT property=%s: minimised replay %s did not reproduce in a fresh process (exit %d)\n", base.prop.c_str(), path.c_str(), ec); ++harness_faults; continue; }
        bool is_known = false; std::string ktext;
        for (auto &k : known) if (k.prop == base.prop && k.clause == a.clause && k.sig == a.sig) { is_known = true; ktext = k.text; break; }
        if (is_known) { ++known_seen; known_lines.push_back(strprintf("KNOWN-FINDING: property=%s clause=%s sig=%s :: %s (replay=%s)", base.prop.c_str(), a.clause.c_str(), a.sig.c_str(), ktext.c_str(), path.c_str())); }
        else { ++violations; out_lines.push_back(strprintf("VIOLATION property=%s replay=%s clause=%s sig=%s shrink_evals=%d :: %s", base.prop.c_str(), path.c_str(), a.clause.c_str(), a.sig.c_str(), sh.evals, fin.detail.c_str())); }
    }
    double wall = now_s() - t0;
    for (auto &l : known_lines) puts(l.c_str());
    for (auto &l : out_lines) puts(l.c_str());

    // ---- evidence
    if (!evidence_path.empty()) {
        FILE *f = fopen(evidence_path.c_str(), "w");
        if (f) {
            fprintf(f, "{\n \"property_id\": %s,\n \"tier\": %s,\n \"seed\": %llu,\n \"level\": %s,\n", jstr(base.prop).c_str(), jstr(thorough ? "thorough" : "quick").c_str(), (unsigned long long) base.seed, jstr(pi->level).c_str());
            fprintf(f, " \"coverage\": {\n  \"evaluations\": %ld,\n  \"distinct_nontrivial\": %zu,\n  \"rule\": %s,\n", done_runs, distinct.size(), jstr(pi->rule).c_str());
            fprintf(f, "  \"samples\": [");
            for (size_t i = 0; i < samples.size(); ++i) fprintf(f, "%s%s", i ? ", " : "", jstr(samples[i].substr(0, 1500)).c_str());
            if (samples.empty()) fprintf(f, "%s", jstr("(no sample captured)").c_str());
            fprintf(f, "],\n  \"simulated_runs\": %ld,\n  \"runs_per_hour\": %.0f,\n  \"simulated_time_events\": %llu,\n", done_runs, wall_search > 0 ? done_runs * 3600.0 / wall_search : 0.0, (unsigned long long) events);
            fprintf(f, "  \"seeds\": %s,\n", jstr(strprintf("run_seed = H(VERIF_SEED=%llu, property, run index 0..%ld)", (unsigned long long) base.seed, runs - 1)).c_str());
            fprintf(f, "  \"faults_and_probes\": {");
            bool first = true; for (auto &kv : counters) { fprintf(f, "%s%s: %llu", first ? "" : ", ", jstr(kv.first).c_str(), (unsigned long long) kv.second); first = false; }
            fprintf(f, "},\n  \"components_real\": [\"libcif (all ten translation units, ASan+UBSan, hooks on)\", \"SQLite 3.40 pager/VDBE/btree (shared library)\", \"ICU 72 converters, normaliser, ustdio\", \"glibc stdio over fopencookie\"],\n");
            fprintf(f, "  \"components_stub\": [\"disk: in-memory sqlite3_vfs with fault points\", \"byte streams: cookie read/write functions\", \"allocator front-ends of libcif (objcopy-redirected malloc family) and SQLite (sqlite3_mem_methods)\", \"callbacks: simulator functions driven by the plan\", \"process environment: LC_NUMERIC, rounding mode, ICU default converter set by the plan\"],\n");
            fprintf(f, "  \"known_findings_seen\": %d,\n  \"harness_faults\": %d,\n  \"workers\": %d\n },\n", known_seen, harness_faults, workers);
            fprintf(f, " \"assumptions\": [\"sampling, not proof: a clean batch is evidence only for the seeds explored\", \"ICU and SQLite are trusted and run un-modified; ICU's allocator is not faulted\", \"handle objects (container, loop) are kept alive while objects derived from them (loop handles, iterators) are in use\", \"the reference model and its documented tolerances are in DESIGN.md section 4\"],\n");
            fprintf(f, " \"wall_s\": %.2f,\n \"violations\": %d\n}\n", wall, violations);
            fclose(f);
        }
    }
    if (print_fps) for (auto &kv : fps) printf("FP %ld %016llx\n", kv.first, (unsigned long long) kv.second);
    printf("cifsim: %ld runs, %zu distinct, %llu events, %.1fs search + %.1fs triage, %d violation(s), %d known finding(s), %d harness fault(s)\n", done_runs, distinct.size(), (unsigned long long) events, wall_search, wall - wall_search, violations, known_seen, harness_faults);
    if (harness_faults) return 2;
    if (done_runs == 0) { printf("cifsim: no run completed\n"); return 2; }
    return violations ? 1 : 0;
}

static int cmd_replay(int argc, char **argv) {
    if (argc < 1) { fprintf(stderr, "usage: cifsim replay <file> [--verbose]\n"); return 2; }
    ReplayFile rf; bool quiet = false, verbose = false;
    for (int i = 1; i < argc; ++i) { std::string a = argv[i]; if (a == "--quiet") quiet = true; else if (a == "--verbose") verbose = true; else if (a == "--tmpdir" && i + 1 < argc) g_tmpdir = argv[++i]; }
    if (g_tmpdir.empty()) g_tmpdir = "/verif/build/tmp";
    mkdir(g_tmpdir.c_str(), 0755);
    if (!read_replay(argv[0], rf)) { fprintf(stderr, "cifsim: cannot read replay file %s\n", argv[0]); return 2; }
    ChildOutcome c = run_in_child(rf.spec, 300, true);
    if (!c.ok) { fprintf(stderr, "cifsim: replay could not be executed\n"); return 2; }
    if (!quiet) {
        if (verbose || c.violated) printf("%s\n", c.trace.c_str());
        if (c.violated) printf("VIOLATION property=%s replay=%s clause=%s sig=%s fingerprint=%016llx :: %s\n", rf.spec.prop.c_str(), argv[0], c.clause.c_str(), c.sig.c_str(), (unsigned long long) c.fingerprint, c.detail.c_str());
        else printf("no violation (fingerprint %016llx)\n", (unsigned long long) c.fingerprint);
        if (c.violated && !c.stderr_tail.empty() && c.clause.find(".memory") != std::string::npos) printf("---- sanitizer report ----\n%s\n", c.stderr_tail.substr(0, 6000).c_str());
    }
    if (c.violated && !rf.clause.empty() && (c.clause != rf.clause || c.sig != rf.sig)) { if (!quiet) printf("note: recorded clause/sig was %s [%s]\n", rf.clause.c_str(), rf.sig.c_str()); return 3; }
    return c.violated ? 1 : 0;
}

static int cmd_one(int argc, char **argv) {   // run a single (prop, seed, run) in-process, verbose: for debugging under gdb/valgrind
    RunSpec s; s.verbose = true; std::vector<uint64_t> after;
    for (int i = 0; i < argc; ++i) { std::string a = argv[i]; auto nextv = [&]() { return std::string(i + 1 < argc ? argv[++i] : ""); };
        if (a == "--after") { std::string l = nextv(); size_t p0 = 0; while (p0 < l.size()) { size_t c = l.find(',', p0); if (c == std::string::npos) c = l.size(); after.push_back(strtoull(l.substr(p0, c - p0).c_str(), NULL, 10)); p0 = c + 1; } }
        else if (a == "--prop") s.prop = nextv(); else if (a == "--seed") s.seed = strtoull(nextv().c_str(), NULL, 10); else if (a == "--run") s.run = strtoull(nextv().c_str(), NULL, 10); else if (a == "--tier") s.tier = nextv();
        else { size_t eq = a.find('='); if (eq != std::string::npos) s.mods.parse_kv(a.substr(0, eq), a.substr(eq + 1)); } }
    // --after a,b,c: first execute those runs silently in this process (what a worker would have done before)
    for (uint64_t pre : after) { RunSpec q = s; q.run = pre; q.verbose = false; RunResult r0 = execute_run(q, 0); (void) r0; }
    g_log.side = stdout;
    RunResult r = execute_run(s, 0);
    if (r.violated) printf("VIOLATION clause=%s sig=%s op=%d :: %s\n", r.clause.c_str(), r.sig.c_str(), r.op_index, r.detail.c_str());
    printf("fingerprint %016llx ops=%d events=%llu\n", (unsigned long long) r.fingerprint, r.n_ops, (unsigned long long) r.events);
    return r.violated ? 1 : 0;
}

int main(int argc, char **argv) {
    setvbuf(stdout, NULL, _IOLBF, 0);
    if (argc < 2) { fprintf(stderr, "usage: cifsim run|replay|one ...\n"); return 2; }
    std::string cmd = argv[1];
    if (cmd == "run") return cmd_run(argc - 2, argv + 2);
    if (cmd == "replay") return cmd_replay(argc - 2, argv + 2);
    if (cmd == "one") return cmd_one(argc - 2, argv + 2);
    if (cmd == "selfcheck") { seams_global_init(); extern void pools_selfcheck(); pools_selfcheck(); puts("pools ok"); return 0; }
    fprintf(stderr, "cifsim: unknown command %s\n", cmd.c_str());
    return 2;
}
