// eng_walk.cpp -- the walk engine (C14): cif_walk over a seeded CIF under a seeded handler program (response table per
// callback kind, optional re-entrant queries); the observed callback trace is checked by an acceptor over the model,
// because the visiting order of siblings is not documented.
#include "model.hpp"
#include "gen.hpp"
#include "faultenum.hpp"
#include "internal/ciftypes.h"
bool rc_defined(int rc);

enum WK { W_CIF_START, W_CIF_END, W_BLOCK_START, W_BLOCK_END, W_FRAME_START, W_FRAME_END, W_LOOP_START, W_LOOP_END, W_PACKET_START, W_PACKET_END, W_ITEM, W_KINDS };
static const char *const WKN[] = { "cif_start", "cif_end", "block_start", "block_end", "frame_start", "frame_end", "loop_start", "loop_end", "packet_start", "packet_end", "item" };
struct WEvt { int kind; std::string id; std::string problem; int resp; };
struct WCtx { std::vector<int> resp[W_KINDS]; long ord[W_KINDS]; std::vector<WEvt> evts; bool reenter; long after_stop = 0; bool stopped = false; };
static int w_respond(WCtx *c, int k, const std::string &id, const std::string &problem = std::string()) {
    ++g_stats.events;
    int r = c->resp[k].empty() ? 0 : c->resp[k][(size_t) (c->ord[k] % (long) c->resp[k].size())]; ++c->ord[k];
    if (c->stopped) ++c->after_stop;
    if (c->evts.size() < 100000) c->evts.push_back({k, id, problem, r});
    if (r == CIF_TRAVERSE_END || r > 0) c->stopped = true;
    return r;
}
static std::string cont_id(cif_container_tp *h, bool reenter, std::string &problem) {
    if (!h) { problem = "NULL container handle"; return ""; }
    UChar *cd = NULL; int rc = cif_container_get_code(h, &cd);
    if (rc != CIF_OK || !cd) { problem = std::string("cif_container_get_code -> ") + rc_name(rc); return ""; }
    std::string s = u8(cd); lib_free(cd);
    if (reenter) {   // further queries on the handle during the callback
        cif_container_tp **fr = NULL; rc = cif_container_get_all_frames(h, &fr);
        if (rc != CIF_OK) problem = std::string("cif_container_get_all_frames during a callback -> ") + rc_name(rc); else { for (cif_container_tp **f = fr; *f; ++f) cif_container_free(*f); lib_free(fr); }
        cif_loop_tp **ls = NULL; rc = cif_container_get_all_loops(h, &ls);
        if (rc != CIF_OK) problem = std::string("cif_container_get_all_loops during a callback -> ") + rc_name(rc); else { for (cif_loop_tp **l = ls; *l; ++l) cif_loop_free(*l); lib_free(ls); }
    }
    return s;
}
static int wh_cif_start(cif_tp *, void *x) { return w_respond((WCtx *) x, W_CIF_START, ""); }
static int wh_cif_end(cif_tp *, void *x) { return w_respond((WCtx *) x, W_CIF_END, ""); }
static int wh_block_start(cif_container_tp *h, void *x) { WCtx *c = (WCtx *) x; std::string p; std::string id = cont_id(h, c->reenter, p); return w_respond(c, W_BLOCK_START, id, p); }
static int wh_block_end(cif_container_tp *h, void *x) { WCtx *c = (WCtx *) x; std::string p; std::string id = cont_id(h, false, p); return w_respond(c, W_BLOCK_END, id, p); }
static int wh_frame_start(cif_container_tp *h, void *x) { WCtx *c = (WCtx *) x; std::string p; std::string id = cont_id(h, c->reenter, p); return w_respond(c, W_FRAME_START, id, p); }
static int wh_frame_end(cif_container_tp *h, void *x) { WCtx *c = (WCtx *) x; std::string p; std::string id = cont_id(h, false, p); return w_respond(c, W_FRAME_END, id, p); }
static std::string loop_id(cif_loop_tp *l, std::string &problem) {
    if (!l) { problem = "NULL loop handle"; return ""; }
    UChar **names = NULL; int rc = cif_loop_get_names(l, &names);
    if (rc != CIF_OK || !names) { problem = std::string("cif_loop_get_names during a callback -> ") + rc_name(rc); return ""; }
    std::set<std::string> ns; for (UChar **n = names; *n; ++n) { ns.insert(u8(mnorm(from_uchar(*n)))); lib_free(*n); } lib_free(names);
    UChar *cat = NULL; rc = cif_loop_get_category(l, &cat); if (rc != CIF_OK) problem = std::string("cif_loop_get_category -> ") + rc_name(rc); lib_free(cat);
    std::string s; for (auto &n : ns) { s += n; s += " "; } return s;
}
static int wh_loop_start(cif_loop_tp *l, void *x) { WCtx *c = (WCtx *) x; std::string p; std::string id = loop_id(l, p); return w_respond(c, W_LOOP_START, id, p); }
static int wh_loop_end(cif_loop_tp *l, void *x) { WCtx *c = (WCtx *) x; std::string p; std::string id = loop_id(l, p); return w_respond(c, W_LOOP_END, id, p); }
static std::string packet_id(cif_packet_tp *pk, std::string &problem) {
    if (!pk) { problem = "NULL packet"; return ""; }
    const UChar **names = NULL; int rc = cif_packet_get_names(pk, &names);
    if (rc != CIF_OK || !names) { problem = std::string("cif_packet_get_names -> ") + rc_name(rc); return ""; }
    std::map<std::string, std::string> kv;
    for (const UChar **n = names; *n; ++n) { cif_value_tp *v = NULL; rc = cif_packet_get_item(pk, *n, &v); if (rc != CIF_OK || !v) { problem = "cif_packet_get_item failed during a callback"; continue; } try { kv[u8(mnorm(from_uchar(*n)))] = canon(snapshot_value(v)); } catch (Violation &e) { problem = e.detail; } }
    lib_free(names);
    std::string s; for (auto &e : kv) { s += e.first + "=" + e.second + "\x1f"; } return s;
}
static int wh_packet_start(cif_packet_tp *pk, void *x) { WCtx *c = (WCtx *) x; std::string p; std::string id = packet_id(pk, p); return w_respond(c, W_PACKET_START, id, p); }
static int wh_packet_end(cif_packet_tp *pk, void *x) { WCtx *c = (WCtx *) x; std::string p; std::string id = packet_id(pk, p); return w_respond(c, W_PACKET_END, id, p); }
static int wh_item(UChar *name, cif_value_tp *value, void *x) {
    WCtx *c = (WCtx *) x; std::string p, id;
    if (!name || !value) p = "NULL name or value passed to the item handler"; else { try { id = u8(mnorm(from_uchar(name))) + "=" + canon(snapshot_value(value)); } catch (Violation &e) { p = e.detail; } }
    return w_respond(c, W_ITEM, id, p);
}

// ------------------------------------------------------------------------------------------------ the acceptor
enum WFlow { WF_GO, WF_SKIP_CUR, WF_SKIP_SIB, WF_STOP };
struct WAcc {
    const std::vector<WEvt> &ev; size_t pos = 0; const WCtx &cx; int rc = CIF_OK; bool stopped = false; bool any_skip = false;
    WAcc(const std::vector<WEvt> &e, const WCtx &c) : ev(e), cx(c) {}
    [[noreturn]] void fail(const std::string &clause, const std::string &sig, const std::string &msg) {
        std::string ctx; for (size_t i = (pos > 5 ? pos - 5 : 0); i < ev.size() && i < pos + 3; ++i) ctx += strprintf("%s%s(%s)->%d ", i == pos ? "=>" : "", WKN[ev[i].kind], ev[i].id.substr(0, 30).c_str(), ev[i].resp);
        throw Violation(std::string("C14.") + clause, sig, msg + " [trace: " + ctx + "]", -1);
    }
    bool has(int kind) const { return !cx.resp[kind].empty(); }
    bool next_is(int kind) const { return pos < ev.size() && ev[pos].kind == kind; }
    WFlow flow(int r) { if (r == 0) return WF_GO; if (r == CIF_TRAVERSE_SKIP_CURRENT) { any_skip = true; return WF_SKIP_CUR; } if (r == CIF_TRAVERSE_SKIP_SIBLINGS) { any_skip = true; return WF_SKIP_SIB; } stopped = true; rc = r > 0 ? r : CIF_OK; return WF_STOP; }
    // consumes the next event, which must be of 'kind'
    WFlow take(int kind) { if (!next_is(kind)) fail("order", strprintf("missing:%s", WKN[kind]), strprintf("expected a %s callback next", WKN[kind])); if (!ev[pos].problem.empty()) fail("handles", WKN[kind], ev[pos].problem); return flow(ev[pos++].resp); }
    // an end callback that the documentation leaves optional (after a skip): taken only if it is there and matches
    WFlow take_optional(int kind, const std::string &id) { if (has(kind) && next_is(kind) && (id.empty() || ev[pos].id == id)) return take(kind); return WF_GO; }
    WFlow packet(const MLoop &l, const MPacket &p, const std::string &pid) {
        WFlow r = WF_GO;
        if (has(W_PACKET_START)) { r = take(W_PACKET_START); }
        if (r == WF_STOP) return r;
        if (r != WF_GO) { return r; }
        bool items_skipped = false;
        if (has(W_ITEM)) {
            std::multiset<std::string> want; for (auto &n : l.names) { auto it = p.vals.find(n.norm); want.insert(u8(n.norm) + "=" + ((it != p.vals.end() && it->second) ? canon(*it->second) : canon(MValue::unk()))); }
            while (!want.empty()) {
                if (!next_is(W_ITEM)) fail("complete", "item_missing", strprintf("%zu item(s) of a packet were not presented", want.size()));
                auto f = want.find(ev[pos].id);
                if (f == want.end()) fail("order", "item_unexpected", strprintf("item callback %s does not match an unvisited item of the current packet", ev[pos].id.substr(0, 80).c_str()));
                want.erase(f);
                WFlow ir = take(W_ITEM);
                if (ir == WF_STOP) return ir;
                if (ir == WF_SKIP_SIB) { items_skipped = true; break; }
            }
        }
        (void) pid;
        if (items_skipped) { WFlow e = take_optional(W_PACKET_END, ""); return e == WF_STOP ? e : (e == WF_SKIP_SIB ? e : WF_GO); }
        if (has(W_PACKET_END)) { WFlow e = take(W_PACKET_END); return e; }
        return WF_GO;
    }
    static std::string pid_of(const MLoop &l, const MPacket &p) { std::map<std::string, std::string> kv; for (auto &n : l.names) { auto it = p.vals.find(n.norm); kv[u8(n.norm)] = (it != p.vals.end() && it->second) ? canon(*it->second) : canon(MValue::unk()); } std::string s; for (auto &e : kv) s += e.first + "=" + e.second + "\x1f"; return s; }
    static std::string lid_of(const MLoop &l) { std::set<std::string> ns; for (auto &n : l.names) ns.insert(u8(n.norm)); std::string s; for (auto &n : ns) { s += n; s += " "; } return s; }
    WFlow loop(const MLoop &l) {
        // loop_start was already consumed by the caller (to identify the loop) unless there is no loop_start handler
        std::multiset<std::string> want; for (auto &p : l.packets) want.insert(pid_of(l, p));
        bool skipped = false;
        // packets in any order; without packet_start/packet_end handlers packets are told apart by their items only
        size_t remaining = l.packets.size();
        std::vector<const MPacket *> pool; for (auto &p : l.packets) pool.push_back(&p);
        while (remaining > 0) {
            const MPacket *pk = NULL;
            if (has(W_PACKET_START)) {
                if (!next_is(W_PACKET_START)) fail("complete", "packet_missing", strprintf("%zu packet(s) of a loop were not presented", remaining));
                for (size_t i = 0; i < pool.size(); ++i) if (pool[i] && pid_of(l, *pool[i]) == ev[pos].id) { pk = pool[i]; pool[i] = NULL; break; }
                if (!pk) fail("order", "packet_unexpected", "a packet_start callback presents a packet that is not an unvisited packet of the current loop");
            } else if (has(W_ITEM) && next_is(W_ITEM)) {
                for (size_t i = 0; i < pool.size() && !pk; ++i) if (pool[i]) { for (auto &n : l.names) { auto it = pool[i]->vals.find(n.norm); std::string id = u8(n.norm) + "=" + ((it != pool[i]->vals.end() && it->second) ? canon(*it->second) : canon(MValue::unk())); if (id == ev[pos].id) { pk = pool[i]; break; } } if (pk) pool[i] = NULL; }
                if (!pk) fail("order", "item_unexpected", "an item callback does not belong to any unvisited packet of the current loop");
            } else { for (size_t i = 0; i < pool.size(); ++i) if (pool[i]) { pk = pool[i]; pool[i] = NULL; break; } }
            --remaining;
            WFlow r = packet(l, *pk, "");
            if (r == WF_STOP) return r;
            if (r == WF_SKIP_SIB) { skipped = true; break; }
        }
        if (skipped) { WFlow e = take_optional(W_LOOP_END, ""); return e == WF_STOP ? e : (e == WF_SKIP_SIB ? e : WF_GO); }
        if (has(W_LOOP_END)) return take(W_LOOP_END);
        return WF_GO;
    }
    WFlow container(const MCont &c, int depth) {
        // the start callback was consumed by the caller if a handler exists
        int endk = depth ? W_FRAME_END : W_BLOCK_END;
        bool child_skip = false, loops_begun = false;
        std::vector<const MCont *> frames; for (auto &f : c.frames) frames.push_back(&f);
        size_t frames_left = frames.size();
        while (frames_left > 0) {
            const MCont *f = NULL;
            if (has(W_FRAME_START)) {
                if (!next_is(W_FRAME_START)) fail("complete", "frame_missing", strprintf("%zu save frame(s) of %s were not presented before its loops / end", frames_left, u8(c.code_orig).c_str()));
                for (auto &cand : frames) if (cand && u8(cand->code_orig) == ev[pos].id) { f = cand; cand = NULL; break; }
                if (!f) fail("order", "frame_unexpected", strprintf("frame_start presents %s, not an unvisited frame of %s", ev[pos].id.c_str(), u8(c.code_orig).c_str()));
                WFlow s = take(W_FRAME_START);
                if (s == WF_STOP) return s;
                --frames_left;
                if (s == WF_SKIP_CUR) { take_optional(W_FRAME_END, u8(f->code_orig)); if (stopped) return WF_STOP; continue; }
                if (s == WF_SKIP_SIB) { take_optional(W_FRAME_END, u8(f->code_orig)); if (stopped) return WF_STOP; child_skip = true; break; }
            } else { for (auto &cand : frames) if (cand) { f = cand; cand = NULL; break; } --frames_left; }
            WFlow r = container(*f, depth + 1);
            if (r == WF_STOP) return r;
            if (r == WF_SKIP_SIB) { child_skip = true; break; }
        }
        // loops
        std::vector<const MLoop *> loops; for (auto &l : c.loops) loops.push_back(&l);
        size_t loops_left = loops.size(); bool loop_skip = false;
        while (loops_left > 0) {
            const MLoop *l = NULL;
            if (has(W_LOOP_START)) {
                if (!next_is(W_LOOP_START)) { if (next_is(W_FRAME_START)) fail("order", "frame_after_loop", "a save frame is presented after loops of the same container"); fail("complete", "loop_missing", strprintf("%zu loop(s) of %s were not presented", loops_left, u8(c.code_orig).c_str())); }
                for (auto &cand : loops) if (cand && lid_of(*cand) == ev[pos].id) { l = cand; cand = NULL; break; }
                if (!l) fail("order", "loop_unexpected", strprintf("loop_start presents a loop (%s) that is not an unvisited loop of %s", ev[pos].id.substr(0, 60).c_str(), u8(c.code_orig).c_str()));
                loops_begun = true;
                WFlow s = take(W_LOOP_START);
                if (s == WF_STOP) return s;
                --loops_left;
                if (s == WF_SKIP_CUR) { take_optional(W_LOOP_END, ""); if (stopped) return WF_STOP; continue; }
                if (s == WF_SKIP_SIB) { take_optional(W_LOOP_END, ""); if (stopped) return WF_STOP; loop_skip = true; break; }
            } else {
                // without a loop_start handler loops are told apart by what follows (packets / items); take any unvisited loop whose content matches
                for (auto &cand : loops) if (cand) { bool match = false; if (has(W_PACKET_START) && next_is(W_PACKET_START)) { for (auto &p : cand->packets) if (pid_of(*cand, p) == ev[pos].id) match = true; } else if (has(W_ITEM) && next_is(W_ITEM)) { for (auto &p : cand->packets) for (auto &n : cand->names) { auto it = p.vals.find(n.norm); if (u8(n.norm) + "=" + ((it != p.vals.end() && it->second) ? canon(*it->second) : canon(MValue::unk())) == ev[pos].id) match = true; } } else match = true; if (match) { l = cand; cand = NULL; break; } }
                if (!l) fail("order", "loop_unexpected", "callbacks do not match any unvisited loop of the current container");
                --loops_left; loops_begun = true;
            }
            WFlow r = loop(*l);
            if (r == WF_STOP) return r;
            if (r == WF_SKIP_SIB) { loop_skip = true; break; }
        }
        (void) loops_begun;
        if (child_skip || loop_skip) { WFlow e = take_optional(endk, u8(c.code_orig)); return e == WF_STOP ? e : (e == WF_SKIP_SIB ? e : WF_GO); }
        if (has(endk)) { if (next_is(endk) && ev[pos].id != u8(c.code_orig)) fail("order", "end_mismatch", strprintf("%s callback for %s where the end of %s was due", WKN[endk], ev[pos].id.c_str(), u8(c.code_orig).c_str())); return take(endk); }
        return WF_GO;
    }
    void cif(const MCif &m) {
        WFlow r = WF_GO;
        if (has(W_CIF_START)) r = take(W_CIF_START);
        if (r == WF_STOP) return;
        if (r != WF_GO) { take_optional(W_CIF_END, ""); return; }
        std::vector<const MCont *> blocks; for (auto &b : m.blocks) blocks.push_back(&b);
        size_t left = blocks.size(); bool skip = false;
        while (left > 0) {
            const MCont *b = NULL;
            if (has(W_BLOCK_START)) {
                if (!next_is(W_BLOCK_START)) fail("complete", "block_missing", strprintf("%zu data block(s) were not presented", left));
                for (auto &cand : blocks) if (cand && u8(cand->code_orig) == ev[pos].id) { b = cand; cand = NULL; break; }
                if (!b) fail("order", "block_unexpected", strprintf("block_start presents %s, which is not an unvisited block", ev[pos].id.c_str()));
                WFlow s = take(W_BLOCK_START);
                if (s == WF_STOP) return;
                --left;
                if (s == WF_SKIP_CUR) { take_optional(W_BLOCK_END, u8(b->code_orig)); if (stopped) return; continue; }
                if (s == WF_SKIP_SIB) { take_optional(W_BLOCK_END, u8(b->code_orig)); if (stopped) return; skip = true; break; }
            } else { for (auto &cand : blocks) if (cand) { b = cand; cand = NULL; break; } --left; }
            WFlow rr = container(*b, 0);
            if (rr == WF_STOP) return;
            if (rr == WF_SKIP_SIB) { skip = true; break; }
        }
        if (skip) { take_optional(W_CIF_END, ""); return; }
        if (has(W_CIF_END)) take(W_CIF_END);
    }
};

// ------------------------------------------------------------------------------------------------ building the CIF
static void gen_cont(Rng &r, MCont &c, int depth, const GenCfg &g, uint64_t &uid) {
    std::set<ustr> used;
    int nsc = (int) r.range(0, 3);
    if (nsc) { MLoop s; s.has_cat = true; s.uid = ++uid; MPacket p; p.uid = ++uid; for (int i = 0; i < nsc; ++i) { const NameClass &nc = item_pool()[r.below(item_pool().size())]; ustr nm = nc.variants[r.below(nc.variants.size())]; if (!used.insert(mnorm(nm)).second) continue; MName mn; mn.orig = nm; mn.norm = mnorm(nm); s.names.push_back(mn); p.vals[mn.norm] = gen_value(r, g); } if (!s.names.empty()) { s.packets.push_back(p); c.loops.push_back(s); } }
    int nl = (int) r.range(0, 2);
    for (int k = 0; k < nl; ++k) { MLoop l; l.uid = ++uid; if (r.chance(1, 2)) { l.has_cat = true; l.cat = U("cat"); } int nn = (int) r.range(1, 3); for (int i = 0; i < nn; ++i) { const NameClass &nc = item_pool()[r.below(item_pool().size())]; ustr nm = nc.variants[r.below(nc.variants.size())]; if (!used.insert(mnorm(nm)).second) continue; MName mn; mn.orig = nm; mn.norm = mnorm(nm); l.names.push_back(mn); } if (l.names.empty()) continue; int np = (int) r.range(1, 3); for (int q = 0; q < np; ++q) { MPacket p; p.uid = ++uid; for (auto &n : l.names) p.vals[n.norm] = gen_value(r, g); l.packets.push_back(p); } c.loops.push_back(l); }
    if (depth < 2) { int nf = (int) r.range(0, depth == 0 ? 2 : 1); std::set<ustr> codes; codes.insert(c.code_norm); /* a frame never shares its code with its parent: the optional-end rule would be ambiguous */ for (int k = 0; k < nf; ++k) { const NameClass &nc = code_pool()[r.below(code_pool().size())]; ustr cd = nc.variants[r.below(nc.variants.size())]; if (!codes.insert(mnorm(cd)).second) continue; MCont f; f.code_orig = cd; f.code_norm = mnorm(cd); f.uid = ++uid; gen_cont(r, f, depth + 1, g, uid); c.frames.push_back(f); } }
}
static void build_cont(cif_container_tp *h, MCont &c) {   // values in the model are replaced by snapshots of the values actually built
    for (auto &l : c.loops) {
        if (l.is_scalar()) { for (auto &n : l.names) { int rc = CIF_OK; cif_value_tp *v = build_value(*l.packets[0].vals.at(n.norm), &rc); if (!v) throw Violation("C14.setup", "build_value", "could not build a value"); l.packets[0].vals[n.norm] = snapshot_value(v); rc = cif_container_set_value(h, UC(n.orig), v); cif_value_free(v); if (rc != CIF_OK) throw Violation("C14.setup", "set_value", strprintf("cif_container_set_value -> %s", rc_name(rc))); } continue; }
        std::vector<UChar *> names; for (auto &n : l.names) names.push_back((UChar *) UC(n.orig)); names.push_back(NULL);
        cif_loop_tp *lh = NULL; int rc = cif_container_create_loop(h, l.has_cat ? UC(l.cat) : NULL, names.data(), &lh);
        if (rc != CIF_OK) throw Violation("C14.setup", "create_loop", strprintf("cif_container_create_loop -> %s", rc_name(rc)));
        for (auto &p : l.packets) { cif_packet_tp *pk = NULL; rc = cif_packet_create(&pk, names.data()); for (auto &n : l.names) { int r2; cif_value_tp *v = build_value(*p.vals.at(n.norm), &r2); if (v) { p.vals[n.norm] = snapshot_value(v); if (rc == CIF_OK) rc = cif_packet_set_item(pk, UC(n.orig), v); cif_value_free(v); } } if (rc == CIF_OK) rc = cif_loop_add_packet(lh, pk); cif_packet_free(pk); if (rc != CIF_OK) { cif_loop_free(lh); throw Violation("C14.setup", "add_packet", strprintf("building a loop failed: %s", rc_name(rc))); } }
        cif_loop_free(lh);
    }
    for (auto &f : c.frames) { cif_container_tp *fh = NULL; int rc = cif_container_create_frame(h, UC(f.code_orig), &fh); if (rc != CIF_OK) throw Violation("C14.setup", "create_frame", strprintf("cif_container_create_frame -> %s", rc_name(rc))); try { build_cont(fh, f); } catch (...) { cif_container_free(fh); throw; } cif_container_free(fh); }
}

RunResult eng_walk_run_cfg(const RunSpec &spec, const std::string &prop, bool enumerate) {
    RunResult res;
    g_plan_n_ops = 0; g_plan_fault_ops.clear(); plan_ready();
    Rng r(hmix(run_seed_of(spec), hstr("workload")));
    Rng cr(hmix(run_seed_of(spec), hstr("callbacks")));
    GenCfg g; g.max_depth = (int) r.range(0, 2); g.max_members = 3; g.allow_long = false;
    MCif m; uint64_t uid = 0; int nb = (int) r.range(r.chance(1, 12) ? 0 : 1, 3); std::set<ustr> codes;
    for (int i = 0; i < nb; ++i) { const NameClass &nc = code_pool()[r.below(code_pool().size())]; ustr cd = nc.variants[r.below(nc.variants.size())]; if (!codes.insert(mnorm(cd)).second) continue; MCont b; b.code_orig = cd; b.code_norm = mnorm(cd); b.uid = ++uid; gen_cont(r, b, 0, g, uid); m.blocks.push_back(b); }
    cif_tp *cif = NULL; int rc = cif_create(&cif);
    if (rc != CIF_OK) throw Violation(prop + ".setup", "cif_create", "cif_create failed", -1);
    std::unique_ptr<Violation> bad;
    WCtx cx; memset(cx.ord, 0, sizeof cx.ord); cx.reenter = cr.chance(1, 3);
    bool all_continue = cr.chance(1, 4);
    for (int k = 0; k < W_KINDS; ++k) {
        // start handlers that identify elements are always present (without them sibling order makes the trace ambiguous)
        bool identifying = k == W_BLOCK_START || k == W_FRAME_START || k == W_LOOP_START || k == W_PACKET_START;
        if (!identifying && cr.chance(1, 6)) continue;
        size_t n = all_continue ? 1 : (size_t) cr.range(1, 5);
        for (size_t i = 0; i < n; ++i) { unsigned w = (unsigned) cr.below(100); int v = 0; if (!all_continue) { if (w < 70) v = 0; else if (w < 80) v = CIF_TRAVERSE_SKIP_CURRENT; else if (w < 90) v = CIF_TRAVERSE_SKIP_SIBLINGS; else if (w < 95) v = CIF_TRAVERSE_END; else { static const int C[] = { CIF_CLIENT_ERROR, 1, 140 }; v = C[cr.below(3)]; } } cx.resp[k].push_back(v); }
    }
    try {
        for (auto &b : m.blocks) { cif_container_tp *bh = NULL; rc = cif_create_block(cif, UC(b.code_orig), &bh); if (rc != CIF_OK) throw Violation(prop + ".setup", "create_block", strprintf("cif_create_block -> %s", rc_name(rc)), -1); try { build_cont(bh, b); } catch (...) { cif_container_free(bh); throw; } cif_container_free(bh); }
        if (g_log.keep_text) { g_log.add("model: " + canon(m).substr(0, 3000)); std::string t; for (int k = 0; k < W_KINDS; ++k) { t += strprintf(" %s[", WKN[k]); for (int x : cx.resp[k]) t += strprintf("%d ", x); t += "]"; } g_log.add("program:" + t); }
        cif_handler_tp h = { wh_cif_start, wh_cif_end, wh_block_start, wh_block_end, wh_frame_start, wh_frame_end, wh_loop_start, wh_loop_end, wh_packet_start, wh_packet_end, wh_item };
        for (int k = 0; k < W_KINDS; ++k) if (cx.resp[k].empty()) ((void **) &h)[k] = NULL;
        FaultEnum fe; fe.enabled = enumerate; fe.quick = spec.tier != "thorough"; fe.prop = prop; fe.seed = run_seed_of(spec);
        WCtx run_cx = cx;
        fe.watch_db = cif->db; fe.idempotent = true;
        int wrc = fe.call("cif_walk", [&]() { run_cx = cx; return cif_walk(cif, &h, &run_cx); });
        ev("cif_walk -> %s, %zu callbacks, reenter=%d all_continue=%d", rc_name(wrc), run_cx.evts.size(), cx.reenter ? 1 : 0, all_continue ? 1 : 0);
        if (g_log.keep_text) { std::string t; for (auto &e : run_cx.evts) t += strprintf("%s(%s)->%d ", WKN[e.kind], e.id.substr(0, 24).c_str(), e.resp); g_log.add("trace: " + t.substr(0, 6000)); }
        for (auto &e : run_cx.evts) g_stats.cover(hmix(hmix(hstr("w"), (uint64_t) e.kind), (uint64_t) (e.resp + 5)));
        g_stats.cover(hmix(hstr("wshape"), hmix(m.blocks.size(), (uint64_t) (all_continue ? 1 : 0))));
        if (prop == "C14") {
            WAcc a(run_cx.evts, run_cx);
            a.cif(m);
            if (a.pos != run_cx.evts.size()) a.fail(a.stopped ? "end" : "order", a.stopped ? "callback_after_stop" : "extra", strprintf("%zu callback(s) after the expected end of the walk", run_cx.evts.size() - a.pos));
            if (wrc != a.rc) throw Violation("C14.rc", strprintf("%s!=%s", rc_name(wrc), rc_name(a.rc)), strprintf("cif_walk returned %s, the handler program prescribes %s", rc_name(wrc), rc_name(a.rc)), -1);
        } else if (!rc_defined(wrc) && wrc != 1 && wrc != 140) throw Violation(prop + ".rc", "cif_walk:undefined", strprintf("cif_walk returned %d", wrc), -1);
        // the CIF is unchanged and free for ordinary use afterwards
        std::string a1 = canon(m), b1 = canon(dump_cif(cif, prop.c_str()));
        if (a1 != b1) throw Violation(prop + ".handles", "content_changed", "the CIF changed during cif_walk: " + first_diff(a1, b1), -1);
        fe.txm.finish();
    } catch (Violation &v) { bad.reset(new Violation(v)); }
    rc = cif_destroy(cif);
    if (bad) throw *bad;
    if (rc != CIF_OK) throw Violation(prop + ".handles", "cif_destroy", "cif_destroy failed after the walk", -1);
    return res;
}
RunResult eng_walk_run(const RunSpec &spec) { return eng_walk_run_cfg(spec, "C14", false); }
