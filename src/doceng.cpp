// doceng.cpp -- run cif_parse over a simulated input stream with recording / steering callbacks
#include "doceng.hpp"
#include <unistd.h>

struct Ctx { ParseOutcome *out; const ParseOpts *o; long ord[11]; long err_ord; volatile unsigned sink; };

static int respond(Ctx *c, int kind) {
    const std::vector<int> &t = c->o->hp.resp[kind];
    int r = t.empty() ? CIF_TRAVERSE_CONTINUE : t[(size_t) (c->ord[kind] % (long) t.size())];
    ++c->ord[kind];
    return r;
}
static void note(Ctx *c, int kind, const std::string &what) { ++g_stats.events; ++c->out->cb_calls; if (c->out->events.size() < 20000) c->out->events.push_back({kind, what, 0}); }
static std::string code_of(cif_container_tp *h, bool reenter) {
    if (!h) return "(null)";
    if (!reenter) return "(handle)";
    UChar *cd = NULL; int rc = cif_container_get_code(h, &cd);
    if (rc != CIF_OK) return std::string("(get_code:") + rc_name(rc) + ")";
    std::string s = u8(cd); lib_free(cd); return s;
}
static int h_cif_start(cif_tp *, void *x) { Ctx *c = (Ctx *) x; note(c, EV_CIF_START, ""); return respond(c, 0); }
static int h_cif_end(cif_tp *, void *x) { Ctx *c = (Ctx *) x; note(c, EV_CIF_END, ""); return respond(c, 1); }
static int h_block_start(cif_container_tp *b, void *x) { Ctx *c = (Ctx *) x; note(c, EV_BLOCK_START, code_of(b, c->o->hp.reenter)); return respond(c, 2); }
static int h_block_end(cif_container_tp *b, void *x) { Ctx *c = (Ctx *) x; note(c, EV_BLOCK_END, code_of(b, c->o->hp.reenter)); return respond(c, 3); }
static int h_frame_start(cif_container_tp *b, void *x) { Ctx *c = (Ctx *) x; note(c, EV_FRAME_START, code_of(b, c->o->hp.reenter)); return respond(c, 4); }
static int h_frame_end(cif_container_tp *b, void *x) { Ctx *c = (Ctx *) x; note(c, EV_FRAME_END, code_of(b, c->o->hp.reenter)); return respond(c, 5); }
static int h_loop_start(cif_loop_tp *l, void *x) {
    Ctx *c = (Ctx *) x; std::string s;
    if (l) { UChar **names = NULL; int rc = cif_loop_get_names(l, &names); if (rc == CIF_OK && names) { for (UChar **n = names; *n; ++n) { s += u8(*n); s += " "; lib_free(*n); } lib_free(names); } else s = std::string("(get_names:") + rc_name(rc) + ")"; }
    else s = "(null)";
    note(c, EV_LOOP_START, s); return respond(c, 6);
}
static int h_loop_end(cif_loop_tp *, void *x) { Ctx *c = (Ctx *) x; note(c, EV_LOOP_END, ""); return respond(c, 7); }
static int h_packet_start(cif_packet_tp *, void *x) { Ctx *c = (Ctx *) x; note(c, EV_PACKET_START, ""); return respond(c, 8); }
static int h_packet_end(cif_packet_tp *p, void *x) {
    Ctx *c = (Ctx *) x; std::string s;
    if (p) { const UChar **names = NULL; if (cif_packet_get_names(p, &names) == CIF_OK && names) { size_t n = 0; for (const UChar **q = names; *q; ++q) ++n; s = std::to_string(n) + " items"; lib_free(names); } }
    note(c, EV_PACKET_END, s); return respond(c, 9);
}
static int h_item(UChar *name, cif_value_tp *value, void *x) {
    Ctx *c = (Ctx *) x; std::string s = name ? u8(name) : std::string("(null)");
    s += "=";
    if (value) { try { s += canon(snapshot_value(value)); } catch (Violation &v) { s += "(bad value: " + v.detail + ")"; } } else s += "(null)";
    note(c, EV_ITEM, s); return respond(c, 10);
}
static void syn(Ctx *c, int kind, size_t line, const UChar *tok, size_t len) {
    ustr t; for (size_t i = 0; i < len; ++i) { c->sink += tok[i]; if (t.size() < 64) t += (char16_t) tok[i]; }
    ++g_stats.events; ++c->out->cb_calls;
    if (c->out->events.size() < 20000) c->out->events.push_back({kind, strprintf("%zu:", len) + u8(t), line});
}
static void s_ws(size_t line, size_t, const UChar *tok, size_t len, void *x) { syn((Ctx *) x, EV_WS, line, tok, len); }
static void s_kw(size_t line, size_t, const UChar *tok, size_t len, void *x) { syn((Ctx *) x, EV_KEYWORD, line, tok, len); }
static void s_dn(size_t line, size_t, const UChar *tok, size_t len, void *x) { syn((Ctx *) x, EV_DATANAME, line, tok, len); }
static int on_error(int code, size_t line, size_t col, const UChar *text, size_t len, void *x) {
    Ctx *c = (Ctx *) x;
    ++g_stats.events; ++c->out->cb_calls;
    if (text) for (size_t i = 0; i < len; ++i) c->sink += text[i];      // the promised code units must be readable (ASan watches)
    if (c->out->errs.size() < 5000) c->out->errs.push_back({code, line, col, len, text == NULL});
    if (c->out->events.size() < 20000) c->out->events.push_back({EV_ERROR, rc_name(code), line});
    int ret = 0;
    if (c->o->policy == 3 && !c->o->policy_table.empty()) {
        int d = c->o->policy_table[(size_t) (c->err_ord % (long) c->o->policy_table.size())];
        ret = d == 0 ? 0 : (d == 1 ? code : (d == 2 ? CIF_CLIENT_ERROR : 1));
    }
    ++c->err_ord;
    if (ret != 0 && c->out->first_reject == 0) c->out->first_reject = ret;
    if (c->out->cb_calls > 50000000L) { fflush(NULL); _exit(78); }
    return ret;
}
ParseOutcome run_parse(const std::vector<unsigned char> &bytes, const ParseOpts &o, const StreamCfg &sc, cif_tp *existing) {
    ParseOutcome out;
    Ctx ctx; ctx.out = &out; ctx.o = &o; memset(ctx.ord, 0, sizeof ctx.ord); ctx.err_ord = 0; ctx.sink = 0;
    SimIn in; in.data = bytes; in.chunk = sc.chunk; in.eio_at = sc.eio_at; in.eof_at = sc.eof_at;
    FILE *f = in.open();
    struct cif_parse_opts_s *po = NULL;
    cif_handler_tp handler = { h_cif_start, h_cif_end, h_block_start, h_block_end, h_frame_start, h_frame_end, h_loop_start, h_loop_end, h_packet_start, h_packet_end, h_item };
    if (!o.null_options) {
        if (cif_parse_options_create(&po) != CIF_OK || !po) { fclose(f); out.rc = CIF_MEMORY_ERROR; return out; }
        po->prefer_cif2 = o.prefer_cif2; po->max_frame_depth = o.max_frame_depth; po->line_folding_modifier = o.fold_mod; po->text_prefixing_modifier = o.prefix_mod;
        po->force_default_encoding = o.force_default; po->extra_ws_chars = o.extra_ws; po->extra_eol_chars = o.extra_eol; po->default_encoding_name = o.default_encoding;
        po->user_data = &ctx;
        if (o.policy == 1 || o.policy == 3) po->error_callback = on_error; else if (o.policy == 2) po->error_callback = cif_parse_error_ignore; else po->error_callback = NULL;
        if (o.hp.present) { for (int k = 0; k < 11; ++k) if (o.hp.resp[k].empty()) ((void **) &handler)[k] = NULL; po->handler = &handler; }
        if (o.syntax_callbacks) { po->whitespace_callback = s_ws; po->keyword_callback = s_kw; po->dataname_callback = s_dn; }
    }
    cif_tp *cif = existing;
    ++g_stats.events;
    out.rc = cif_parse(f, po, o.target == 0 ? NULL : &cif);
    out.cif = o.target == 0 ? NULL : cif;
    out.stream_fault_fired = in.eio_fired || in.eof_fired;
    fclose(f);
    if (po) lib_free(po);
    return out;
}
std::string errs_str(const std::vector<ErrEvt> &e, size_t max) {
    std::string s;
    for (size_t i = 0; i < e.size() && i < max; ++i) { if (i) s += ","; s += strprintf("%s@%zu", rc_name(e[i].code), e[i].line); }
    if (e.size() > max) s += strprintf(",...(%zu)", e.size());
    return s.empty() ? "-" : s;
}
bool rc_defined(int rc) { const char *n = rc_name(rc); return n[0] == 'C'; }
Knobs gen_knobs(Rng &r, bool allow_default) {
    Knobs k;
    if (allow_default && r.chance(1, 2)) return k;
    switch (r.below(4)) {
        case 0: k.scan_initial = (size_t) r.range(2, 24); break;
        case 1: k.scan_initial = (size_t) r.range(25, 400); break;
        case 2: k.scan_initial = (size_t) r.range(401, 8000); break;
        default: break;
    }
    k.min_fill = r.chance(1, 2) ? (size_t) r.range(1, 8) : (size_t) r.range(9, 2050);
    k.read_buf = r.chance(1, 2) ? (size_t) r.range(16, 64) : (r.chance(1, 2) ? (size_t) r.range(65, 1000) : 4096);
    // (read buffers below 16 bytes are not generated: the version comment is looked for in the first buffer-full, which a real stream
    // always delivers whole - fread() returns short only at end of input - so a smaller knob value creates a state the library never meets)
    return k;
}
std::string ParseOpts::str() const {
    return strprintf("null=%d cif2=%d frames=%d fold=%d prefix=%d force=%d ws=%s eol=%s enc=%s policy=%d target=%d handler=%d syntax=%d", null_options, prefer_cif2, max_frame_depth, fold_mod, prefix_mod, force_default,
                     extra_ws ? "set" : "-", extra_eol ? "set" : "-", default_encoding ? default_encoding : "-", policy, target, hp.present, syntax_callbacks);
}
