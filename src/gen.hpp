// gen.hpp -- seeded generators shared by the engines: strings biased to syntactically significant characters,
// value trees, numbers in every accepted spelling.
#pragma once
#include "model.hpp"

struct GenCfg {
    int max_depth = 3;            // nesting of lists / tables
    int max_members = 6;
    bool allow_composite = true;  // lists / tables
    bool cif11_chars_only = false;// restrict strings to the CIF 1.1 character set (plus LF)
    bool allow_long = true;       // heavy tail up to 5000 units / writer decision boundaries around 2048
    bool allow_newlines = true;
    bool allow_numb = true;
    bool boundary_bias = false;   // C02/C13: lengths near 2040..2056, semicolon runs, trailing backslashes, ...
};

ustr gen_string(Rng &r, const GenCfg &c);
// a string that cif_value_set_quoted(NOT_QUOTED) must accept and that is not "?" or "."
bool is_reserved_word(const ustr &s);   // CIF reserved words, case-insensitive: data_* save_* loop_ stop_ global_
ustr gen_bare_string(Rng &r, const GenCfg &c);
ustr gen_number_text(Rng &r);
MValue gen_value(Rng &r, const GenCfg &c, int depth = 0);
MValue simple_value(uint64_t tag);
bool bare_ok(const ustr &s);      // conservative: true only if the string is certainly presentable whitespace-delimited in CIF 2.0
