// docgen.cpp -- abstract documents and their layouts (see docgen.hpp and DESIGN.md Appendix B)
#include "docgen.hpp"

std::vector<unsigned char> to_utf8(const ustr &s) {
    std::vector<unsigned char> o;
    for (size_t i = 0; i < s.size(); ++i) {
        uint32_t c = s[i];
        if (c >= 0xd800 && c <= 0xdbff && i + 1 < s.size() && s[i + 1] >= 0xdc00 && s[i + 1] <= 0xdfff) { c = 0x10000 + ((c - 0xd800) << 10) + (s[i + 1] - 0xdc00); ++i; }
        if (c < 0x80) o.push_back((unsigned char) c);
        else if (c < 0x800) { o.push_back((unsigned char) (0xc0 | (c >> 6))); o.push_back((unsigned char) (0x80 | (c & 0x3f))); }
        else if (c < 0x10000) { o.push_back((unsigned char) (0xe0 | (c >> 12))); o.push_back((unsigned char) (0x80 | ((c >> 6) & 0x3f))); o.push_back((unsigned char) (0x80 | (c & 0x3f))); }
        else { o.push_back((unsigned char) (0xf0 | (c >> 18))); o.push_back((unsigned char) (0x80 | ((c >> 12) & 0x3f))); o.push_back((unsigned char) (0x80 | ((c >> 6) & 0x3f))); o.push_back((unsigned char) (0x80 | (c & 0x3f))); }
    }
    return o;
}
std::vector<unsigned char> Layout::utf8() const { return to_utf8(text); }

static size_t cps(const ustr &s) { size_t n = 0; for (char16_t c : s) if (!(c >= 0xdc00 && c <= 0xdfff)) ++n; return n; }
static std::vector<ustr> split_lines(const ustr &s) { std::vector<ustr> v; ustr cur; for (char16_t c : s) { if (c == '\n') { v.push_back(cur); cur.clear(); } else cur += c; } v.push_back(cur); return v; }
static bool lines_fit(const ustr &s, size_t first_max, size_t other_max, size_t last_max) {
    std::vector<ustr> l = split_lines(s);
    for (size_t i = 0; i < l.size(); ++i) { size_t n = cps(l[i]); size_t lim = other_max; if (i == 0) lim = std::min(lim, first_max); if (i + 1 == l.size()) lim = std::min(lim, last_max); if (n > lim) return false; }
    return true;
}
static bool first_line_marker_like(const ustr &s) {
    // true if the first line's last non-blank character is a backslash (it would read as a prefix / folding marker)
    size_t e = s.find(u'\n'); if (e == ustr::npos) e = s.size();
    while (e > 0 && (s[e - 1] == ' ' || s[e - 1] == '\t')) --e;
    return e > 0 && s[e - 1] == '\\';
}
bool can_present(const ustr &s, Pres p, int version) {
    bool nl = s.find(u'\n') != ustr::npos;
    switch (p) {
        case P_BARE: return false;   // decided by the caller (quoted flag)
        case P_SQ: case P_DQ: {
            char16_t q = p == P_SQ ? u'\'' : u'"';
            if (nl || cps(s) + 2 > 2040) return false;
            if (version >= 2) return s.find(q) == ustr::npos;
            for (size_t i = 0; i + 1 < s.size(); ++i) if (s[i] == q && (s[i + 1] == ' ' || s[i + 1] == '\t')) return false;
            return true;
        }
        case P_TSQ: case P_TDQ: {
            if (version < 2) return false;
            char16_t q = p == P_TSQ ? u'\'' : u'"';
            if (s.find(ustr(3, q)) != ustr::npos || (!s.empty() && s.back() == q)) return false;
            return lines_fit(s, 2040, 2048, 2040);
        }
        case P_TEXT:
            if (s.find(U("\n;")) != ustr::npos) return false;
            if (!lines_fit(s, 2047, 2048, 2048)) return false;
            if (version >= 2 && !(s.size() && s[0] == ';') && first_line_marker_like(s)) return false;
            return true;
        case P_TEXT_FOLD:
            if (version < 2) return false;
            if (s.find(U("\n;")) != ustr::npos || (!s.empty() && s[0] == ';')) return false;
            return true;
        case P_TEXT_PREFIX:
            if (version < 2) return false;
            return lines_fit(s, 2040, 2040, 2040);
        case P_TEXT_BOTH: return version >= 2;
        default: return false;
    }
}
// line folding of one logical line into physical segments (cuts never inside a surrogate pair; never directly before ';' when
// 'no_semi_start'); 'maxseg' = maximum segment length in UTF-16 units
static std::vector<ustr> fold_segments(const ustr &line, Rng &r, size_t maxseg, bool no_semi_start) {
    std::vector<ustr> segs;
    size_t pos = 0;
    if (line.empty()) { segs.push_back(ustr()); return segs; }
    while (pos < line.size()) {
        size_t remain = line.size() - pos;
        size_t want = remain <= maxseg && r.chance(2, 3) ? remain : (size_t) r.range(1, (long) std::min(remain, maxseg));
        size_t cut = pos + want;
        // adjust the cut: not inside a surrogate pair, not directly before ';'
        while (cut < line.size() && cut > pos + 1 && ((line[cut] >= 0xdc00 && line[cut] <= 0xdfff) || (no_semi_start && line[cut] == ';'))) --cut;
        if (cut < line.size() && ((line[cut] >= 0xdc00 && line[cut] <= 0xdfff) || (no_semi_start && line[cut] == ';'))) { cut = pos + want; while (cut < line.size() && ((line[cut] >= 0xdc00 && line[cut] <= 0xdfff) || (no_semi_start && line[cut] == ';'))) ++cut; }
        segs.push_back(line.substr(pos, cut - pos));
        pos = cut;
    }
    return segs;
}
static bool ends_like_continuation(const ustr &seg) { size_t e = seg.size(); while (e > 0 && (seg[e - 1] == ' ' || seg[e - 1] == '\t')) --e; return e > 0 && seg[e - 1] == '\\'; }
ustr present_value_text(const ustr &s, Pres p, Rng &r) {
    switch (p) {
        case P_SQ: return U("'") + s + U("'");
        case P_DQ: return U("\"") + s + U("\"");
        case P_TSQ: return U("'''") + s + U("'''");
        case P_TDQ: return U("\"\"\"") + s + U("\"\"\"");
        case P_TEXT: return U("\n;") + s + U("\n;");
        case P_TEXT_FOLD: case P_TEXT_PREFIX: case P_TEXT_BOTH: {
            bool fold = p != P_TEXT_PREFIX, pre = p != P_TEXT_FOLD;
            ustr prefix;
            if (pre) { static const char *const PS[] = { "> ", "#", "::", "a b ", "_x", "'" }; prefix = U(PS[r.below(6)]); }
            ustr o = U("\n;") + prefix + U("\\");
            if (fold && pre) o += U("\\");
            if (r.chance(1, 4)) o += r.chance(1, 2) ? U("  ") : U("\t");
            std::vector<ustr> lines = split_lines(s);
            for (auto &l : lines) {
                if (!fold) { o += U("\n") + prefix + l; continue; }
                size_t maxseg = r.chance(1, 3) ? 2000 : (size_t) r.range(1, 60);
                std::vector<ustr> segs = fold_segments(l, r, maxseg, !pre);
                for (size_t i = 0; i < segs.size(); ++i) {
                    o += U("\n") + prefix + segs[i];
                    bool last = i + 1 == segs.size();
                    if (!last) { o += U("\\"); if (r.chance(1, 6)) o += U(" "); }
                    else if (ends_like_continuation(segs[i])) { o += U("\\"); o += U("\n") + prefix; }   // protect: empty continuation
                }
            }
            o += U("\n;");
            return o;
        }
        default: return s;
    }
}

// ------------------------------------------------------------------------------------------------ generation
static ustr pick_variant(Rng &r, const std::vector<NameClass> &pool, size_t cls) { const NameClass &c = pool[cls % pool.size()]; return c.variants[r.below(c.variants.size())]; }
// names and codes at the length limits (data name: 2048 characters, block / frame code: 2043), now and then, when the
// configuration asks for long tokens: the parser's line-length accounting and token buffering at the limit
static ustr long_item_name(Rng &r) { static const size_t L[] = { 2048, 2047, 2046, 2040, 1500 }; size_t n = L[r.below(5)]; ustr s = U("_long"); s += (char16_t) ('0' + r.below(10)); while (s.size() < n) s += (char16_t) ('a' + s.size() % 26); return s; }
static ustr long_code(Rng &r) { static const size_t L[] = { 2043, 2042, 2041, 2030, 1200 }; size_t n = L[r.below(5)]; ustr s = U("lc"); s += (char16_t) ('0' + r.below(10)); while (s.size() < n) s += (char16_t) ('a' + s.size() % 26); return s; }
static void fix_keys(MValue &v) {
    // table keys must have a quoted or triple-quoted presentation
    for (auto &e : v.elems) fix_keys(e);
    for (size_t i = 0; i < v.entries.size(); ++i) {
        bool ok = false; for (int p = P_SQ; p <= P_TDQ; ++p) if (can_present(v.entries[i].first, (Pres) p, 2)) ok = true;
        if (!ok) { ustr k = U("k") + U(std::to_string(i).c_str()); bool clash = false; for (auto &o : v.entries) if (o.first == k) clash = true; if (clash) k += U("_"); v.entries[i].first = k; }
        fix_keys(v.entries[i].second);
    }
}
static MValue doc_value(Rng &r, const DocCfg &c, int depth = 0) {
    if (c.version >= 2) { MValue v = gen_value(r, c.vals, depth); fix_keys(v); return v; }
    // CIF 1.1: character data, unknown, not applicable only
    switch (r.below(10)) {
        case 0: return MValue::unk();
        case 1: return MValue::na();
        case 2: return MValue::numb(gen_number_text(r));
        case 3: case 4: case 5: {
            GenCfg g = c.vals; g.cif11_chars_only = true; ustr s = gen_bare_string(r, g);
            if (r.chance(1, 3)) { static const char B[] = "[]{}"; size_t at = 1 + (size_t) r.below(s.size()); s.insert(s.begin() + (long) std::min(at, s.size()), (char16_t) B[r.below(4)]); }
            for (auto &ch : s) if (ch > 0x7e) ch = u'q';
            if (s.size() > 2000) s.resize(2000);
            return MValue::chr(s, false);
        }
        default: {
            GenCfg g = c.vals; g.cif11_chars_only = true; ustr s = gen_string(r, g);
            for (auto &ch : s) if (ch > 0x7e || (ch < 0x20 && ch != '\n' && ch != '\t')) ch = u'x';
            // CIF 1.1 has no presentation for a value containing newline + semicolon, or whose quotes are followed by blanks
            auto presentable = [&](const ustr &x) { return can_present(x, P_SQ, 1) || can_present(x, P_DQ, 1) || can_present(x, P_TEXT, 1); };
            if (!presentable(s)) { for (size_t i = 0; i + 1 < s.size(); ++i) if (s[i] == '\n' && s[i + 1] == ';') s[i + 1] = u':'; }
            if (!presentable(s)) s = U("fallback value");
            return MValue::chr(s, true);
        }
    }
}
static void gen_items(Rng &r, const DocCfg &c, std::vector<DItem> &items, std::set<ustr> &used_names, bool allow_frames) {
    int n = (int) r.range(0, c.max_items);
    std::set<ustr> used_codes;
    for (int i = 0; i < n; ++i) {
        unsigned w = (unsigned) r.below(100);
        if (w < 55) {
            size_t cls = (size_t) r.below(item_pool().size()); ustr nm = pick_variant(r, item_pool(), cls);
            if (c.long_tokens && r.chance(1, 12)) nm = long_item_name(r);
            if (!used_names.insert(mnorm(nm)).second) continue;
            if (c.version < 2) { bool ascii = true; for (char16_t ch : nm) if (ch > 0x7e) ascii = false; if (!ascii) { used_names.erase(mnorm(nm)); continue; } }
            DItem it; it.kind = D_SCALAR; it.name = nm; it.value = doc_value(r, c); items.push_back(it);
        } else if (w < 85) {
            DItem it; it.kind = D_LOOP;
            int nn = (int) r.range(1, c.max_loop_names);
            for (int k = 0; k < nn; ++k) { size_t cls = (size_t) r.below(item_pool().size()); ustr nm = pick_variant(r, item_pool(), cls); if (c.long_tokens && r.chance(1, 16)) nm = long_item_name(r); bool ascii = true; for (char16_t ch : nm) if (ch > 0x7e) ascii = false; if (c.version < 2 && !ascii) continue; if (used_names.insert(mnorm(nm)).second) it.names.push_back(nm); }
            if (it.names.empty()) continue;
            int np = (int) r.range(1, c.max_packets);
            for (int p = 0; p < np; ++p) { std::vector<MValue> row; for (size_t k = 0; k < it.names.size(); ++k) row.push_back(doc_value(r, c)); it.packets.push_back(row); }
            items.push_back(it);
        } else if (allow_frames && c.frames) {
            DItem it; it.kind = D_FRAME; size_t cls = (size_t) r.below(code_pool().size()); it.code = pick_variant(r, code_pool(), cls);
            if (c.long_tokens && r.chance(1, 10)) it.code = long_code(r);
            if (c.version < 2) { bool ascii = true; for (char16_t ch : it.code) if (ch > 0x7e) ascii = false; if (!ascii) continue; }
            if (!used_codes.insert(mnorm(it.code)).second) continue;
            std::set<ustr> inner; gen_items(r, c, it.items, inner, false);
            items.push_back(it);
        }
    }
}
Doc gen_doc(Rng &r, const DocCfg &c) {
    Doc d; d.version = c.version;
    int nb = (int) r.range(r.chance(1, 20) ? 0 : 1, c.max_blocks);
    std::set<ustr> codes;
    for (int i = 0; i < nb; ++i) {
        DBlock b; size_t cls = (size_t) r.below(code_pool().size()); b.code = pick_variant(r, code_pool(), cls);
        if (c.long_tokens && r.chance(1, 10)) b.code = long_code(r);
        if (c.version < 2) { bool ascii = true; for (char16_t ch : b.code) if (ch > 0x7e) ascii = false; if (!ascii) continue; }
        if (!codes.insert(mnorm(b.code)).second) continue;
        std::set<ustr> names; gen_items(r, c, b.items, names, true);
        d.blocks.push_back(b);
    }
    return d;
}

// ------------------------------------------------------------------------------------------------ expected content
static MValue expect_value(const MValue &v, int version) {
    MValue o = v;
    if (v.kind == CIF_NUMB_KIND) { o = MValue::chr(v.text, v.quoted); }
    if (o.kind == CIF_CHAR_KIND && !o.quoted && version < 2) { for (char16_t ch : o.text) if (ch == '[' || ch == ']' || ch == '{' || ch == '}') o.quoted = true; }
    for (auto &e : o.elems) e = expect_value(e, version);
    for (auto &e : o.entries) e.second = expect_value(e.second, version);
    o.has_num = false;
    return o;
}
static void expect_items(const std::vector<DItem> &items, MCont &c, int version, uint64_t &uid) {
    MLoop scal; scal.has_cat = true; scal.uid = ++uid; MPacket sp; sp.uid = ++uid;
    for (auto &it : items) {
        if (it.kind == D_SCALAR) { MName n; n.orig = it.name; n.norm = mnorm(it.name); scal.names.push_back(n); sp.vals[n.norm] = expect_value(it.value, version); }
        else if (it.kind == D_LOOP) {
            MLoop l; l.uid = ++uid;
            for (auto &nm : it.names) { MName n; n.orig = nm; n.norm = mnorm(nm); l.names.push_back(n); }
            for (auto &row : it.packets) { MPacket p; p.uid = ++uid; for (size_t k = 0; k < row.size(); ++k) p.vals[l.names[k].norm] = expect_value(row[k], version); l.packets.push_back(p); }
            c.loops.push_back(l);
        } else { MCont f; f.code_orig = it.code; f.code_norm = mnorm(it.code); f.uid = ++uid; expect_items(it.items, f, version, uid); c.frames.push_back(f); }
    }
    if (!scal.names.empty()) { scal.packets.push_back(sp); c.loops.push_back(scal); }
}
MCif expected_model(const Doc &d) {
    MCif m; uint64_t uid = 0;
    for (auto &b : d.blocks) { MCont c; c.code_orig = b.code; c.code_norm = mnorm(b.code); c.uid = ++uid; expect_items(b.items, c, d.version, uid); m.blocks.push_back(c); }
    return m;
}

// ------------------------------------------------------------------------------------------------ layout
struct Emit {
    ustr t; size_t col = 0, line = 1; Rng &r; std::vector<Tok> toks; int version; int cur_item = -1; int depth = 0;
    Emit(Rng &rr, int v) : r(rr), version(v) {}
    void raw(const ustr &s) { for (char16_t c : s) { t += c; if (c == '\n') { col = 0; ++line; } else if (!(c >= 0xdc00 && c <= 0xdfff)) ++col; } }
    size_t first_line_cps(const ustr &s) { size_t e = s.find(u'\n'); return cps(e == ustr::npos ? s : s.substr(0, e)); }
    void ws(bool optional = false) {
        if (optional && r.chance(1, 2)) return;
        size_t start = t.size(); size_t l0 = line;
        unsigned k = (unsigned) r.below(14);
        if (col + 4 > 2048) k = 5;          // whitespace must not push the line past 2048 characters: break the line instead
        switch (k) {
            case 0: case 1: case 2: case 3: raw(U(" ")); break;
            case 4: raw(U("\t")); break;
            case 5: case 6: case 7: raw(U("\n")); break;
            case 8: raw(U("  \t ")); break;
            case 9: raw(U("\n\n")); break;
            case 10: raw(U(" #c\n")); break;
            case 11: raw(U("\n# comment with 'quotes' \"and\" ; _names data_x [ { \n")); break;
            case 12: raw(U(" \n ")); break;
            default: raw(U("\n  ")); break;
        }
        Tok tk; tk.kind = T_WS; tk.start = start; tk.end = t.size(); tk.line = l0; tk.item = cur_item; toks.push_back(tk);
    }
    // ensures that a token whose first line has 'n' code points fits on the current line
    void fit(size_t n) { if (col + n > 2048) raw(U("\n")); }
    void token(TokKind k, const ustr &s, int pres = 0) {
        if (!(s.size() && s[0] == '\n')) fit(first_line_cps(s));
        Tok tk; tk.kind = k; tk.start = t.size(); tk.line = line; tk.pres = pres; tk.depth = depth; tk.item = cur_item;
        raw(s);
        tk.end = t.size(); toks.push_back(tk);
    }
    Pres choose(const ustr &s, bool for_key) {
        std::vector<Pres> ok;
        for (int p = P_SQ; p < P_COUNT; ++p) { if (for_key && p >= P_TEXT) break; if (can_present(s, (Pres) p, version)) ok.push_back((Pres) p); }
        if (ok.empty()) return P_TEXT_BOTH;
        // prefer the short forms a little, but exercise all of them
        return ok[r.below(ok.size())];
    }
    void value(const MValue &v, bool after_colon = false) {
        switch (v.kind) {
            case CIF_UNK_KIND: token(T_VALUE, U("?"), P_BARE); break;
            case CIF_NA_KIND: token(T_VALUE, U("."), P_BARE); break;
            case CIF_NUMB_KIND: if (!v.quoted) { token(T_VALUE, v.text, P_BARE); break; }
                /* a quoted number is just a quoted string */
                /* fall through */
            case CIF_CHAR_KIND:
                if (!v.quoted) token(T_VALUE, v.text, P_BARE);
                else { Pres p = choose(v.text, false); if (after_colon && p >= P_TEXT && false) p = P_TEXT_BOTH; token(T_VALUE, present_value_text(v.text, p, r), p); }
                break;
            case CIF_LIST_KIND:
                token(T_LIST_OPEN, U("[")); ++depth;
                for (size_t i = 0; i < v.elems.size(); ++i) { ws(i == 0); value(v.elems[i]); if (i + 1 < v.elems.size() && needs_ws_after()) { } }
                if (!v.elems.empty() && text_field_open()) ws(false); else ws(true);
                --depth; token(T_LIST_CLOSE, U("]"));
                break;
            case CIF_TABLE_KIND:
                token(T_TABLE_OPEN, U("{")); ++depth;
                for (size_t i = 0; i < v.entries.size(); ++i) {
                    ws(i == 0);
                    Pres kp = choose(v.entries[i].first, true);
                    token(T_KEY, present_value_text(v.entries[i].first, kp, r) + U(":"), kp);
                    value(v.entries[i].second, true);
                }
                if (!v.entries.empty() && text_field_open()) ws(false); else ws(true);
                --depth; token(T_TABLE_CLOSE, U("}"));
                break;
        }
    }
    // a text field's closing "\n;" must be followed by whitespace
    bool text_field_open() { return t.size() >= 2 && t[t.size() - 1] == ';' && t[t.size() - 2] == '\n'; }
    bool needs_ws_after() { return true; }
};
static void layout_items(Emit &e, const std::vector<DItem> &items, int &ordinal) {
    for (auto &it : items) {
        e.cur_item = ordinal++;
        if (it.kind == D_SCALAR) { e.ws(); e.token(T_NAME, it.name); e.ws(); e.value(it.value); }
        else if (it.kind == D_LOOP) {
            e.ws(); e.token(T_LOOP_KW, e.r.chance(1, 4) ? U("LOOP_") : U("loop_"));
            for (auto &n : it.names) { e.ws(); e.token(T_NAME, n); }
            for (auto &row : it.packets) for (auto &v : row) { e.ws(); e.value(v); }
        } else {
            e.ws(); e.token(T_FRAME, (e.r.chance(1, 4) ? U("SAVE_") : U("save_")) + it.code);
            int mine = e.cur_item;
            layout_items(e, it.items, ordinal);
            e.cur_item = mine;
            e.ws(); e.token(T_FRAME_END, e.r.chance(1, 4) ? U("Save_") : U("save_"));
        }
    }
}
Layout layout_doc(const Doc &d, Rng &r, const DocCfg &c) {
    Emit e(r, d.version);
    if (d.version >= 2) { e.token(T_MAGIC, U("#\\#CIF_2.0")); e.raw(r.chance(1, 5) ? U(" \n") : U("\n")); }
    else if (c.magic11) { e.token(T_MAGIC, U("#\\#CIF_1.1")); e.raw(U("\n")); }
    else if (r.chance(1, 3)) e.raw(U("# a comment, not a magic code\n"));
    int ordinal = 0;
    for (auto &b : d.blocks) {
        e.cur_item = ordinal++;
        if (e.t.size() && e.t.back() != '\n' && e.t.back() != ' ' && e.t.back() != '\t') e.ws(); else e.ws(true);
        e.token(T_BLOCK, (r.chance(1, 4) ? U("DATA_") : U("data_")) + b.code);
        layout_items(e, b.items, ordinal);
    }
    // trailing whitespace: a text field's closing delimiter at end of input is fine either way
    if (r.chance(2, 3)) e.ws();
    Layout l; l.text = e.t; l.toks = e.toks;
    return l;
}
