// eng_api.cpp -- the api engine: seeded histories of public-API calls on 1-3 managed CIFs, mirrored op by op in the
// reference model (C04), with planted failing calls and storage faults (C05), iterator life-cycle histories (C06),
// value store/read-back (C07), write/re-parse checkpoints (C02, C13), allocation-failure enumeration (C17) and the
// global-state monitors (C16).  See DESIGN.md sections 4.2, 4.4-4.7, 4.13, 4.16, 4.17 and Appendix A.
#include "apieng.hpp"
#include <sqlite3.h>
extern "C" {
#include "internal/ciftypes.h"
}

// ------------------------------------------------------------------------------------------------ small helpers
static const char *const OPN[] = { "CifCreate", "CifDestroy", "BlockCreate", "BlockGet", "BlocksAll", "FrameCreate", "FrameGet", "FramesAll",
    "ContDestroy", "ContCode", "LoopCreate", "LoopByCat", "LoopByItem", "LoopsAll", "Prune", "GetValue", "SetValue", "RemoveItem",
    "LoopDestroy", "LoopCat", "LoopNames", "LoopSetCat", "LoopAddItem", "LoopAddPacket", "IterOpen", "IterNext", "IterUpdate", "IterRemove",
    "IterClose", "IterAbort", "HandleFree", "Dump", "Walk", "Checkpoint", "PlantFail", "PacketNew", "ParseInto" };
const char *opk_name(int k) { return (k >= 0 && k < (int) (sizeof OPN / sizeof OPN[0])) ? OPN[k] : "?"; }

static const std::vector<ustr> &cat_pool() {
    static std::vector<ustr> p;
    if (p.empty()) { p.push_back(U("cat1")); p.push_back(U("CAT1")); p.push_back(U("atom_site")); p.push_back(U("c 2")); ustr e; e += (char16_t) 0xe9; p.push_back(e); }
    return p;
}

ApiRun::ApiRun(const RunSpec &s, const ApiCfg &c) : spec(s), cfg(c) {}

void ApiRun::violate(const std::string &clause, const std::string &sig, const std::string &detail) {
    throw Violation(cfg.prop + "." + clause, sig, detail, cur_op);
}

void ApiRun::env_check(const char *fn, const std::string &loc0, int rnd0) {
    std::string l2 = EnvSeam::cur_locale(); int r2 = EnvSeam::cur_rounding();
    if (l2 != loc0) throw Violation(cfg.prop + ".locale", std::string(fn), strprintf("%s changed LC_NUMERIC from \"%s\" to \"%s\"", fn, loc0.c_str(), l2.c_str()), cur_op);
    if (r2 != rnd0) throw Violation(cfg.prop + ".rounding", std::string(fn), strprintf("%s changed the floating-point rounding mode from %d to %d", fn, rnd0, r2), cur_op);
}
void ApiRun::enum_check_failed_attempt(const char *fn, int rc, long k, bool sq, bool do_dump) {
    g_stats.inc(sq ? "fault.alloc_sqlite.fired" : "fault.alloc_libcif.fired");
    ev("%s under %s allocation failure #%ld -> %s", fn, sq ? "sqlite" : "libcif", k, rc_name(rc));
    g_stats.cover(hmix(hmix(hstr(fn), (uint64_t) k * 2 + (sq ? 1 : 0)), (uint64_t) rc));
    try {
        if (rc != CIF_MEMORY_ERROR && rc != CIF_ERROR)
            violate("code", strprintf("%s:%s:%s", fn, sq ? "sqlite" : "libcif", rc_name(rc)), strprintf("%s returned %s when %s allocation #%ld failed (CIF_MEMORY_ERROR or CIF_ERROR required)", fn, rc_name(rc), sq ? "storage-engine" : "library", k));
        // cheap, after every failed attempt: no transaction may be left open behind the caller's back
        tx_check(fn, rc, k, sq);
        if (do_dump) check_all_dumps("after a failed allocation");
    } catch (Violation &v) {
        v.detail += strprintf(" [%s allocation #%ld failed at %s]", sq ? "storage-engine" : "library", k, (sq ? g_salloc : g_lalloc).describe_fire().c_str());
        throw;
    }
}
void ApiRun::tx_check(const char *fn, int rc, long k, bool sq) {
    for (size_t i = 0; i < cifs.size(); ++i) if (cifs[i].cif && cifs[i].iter < 0) {
        try { txm.check(cfg.prop, fn, rc, cifs[i].cif->db, strprintf("cif%zu", i).c_str(), sq, k); }
        catch (Violation &v) { v.op_index = cur_op; throw; }
    }
}
#define CALL(fnname, expr) api(fnname, [&]() { return (expr); })

// ------------------------------------------------------------------------------------------------ plan generation
// Names and codes at the length limits (a data name may have 2048 characters, a block or frame code 2043): only in the write /
// round-trip configurations (boundary_bias), where they exercise the writer's line accounting.  Classes 1000.. / 2000..
static const size_t LONG_NAME_LEN[] = { 2048, 2047, 2040, 2030 };
static const size_t LONG_CODE_LEN[] = { 2043, 2042, 2036 };
static ustr long_name(int idx, int variant) { ustr s = U("_l"); s += (char16_t) ('0' + idx); while (s.size() < LONG_NAME_LEN[idx]) s += (char16_t) ((variant ? 'N' : 'n')); return s; }
static ustr long_code(int idx, int variant) { ustr s = U("c"); s += (char16_t) ('0' + idx); while (s.size() < LONG_CODE_LEN[idx]) s += (char16_t) ((variant ? 'C' : 'c')); return s; }
NameRef ApiRun::gen_name(Rng &r, bool allow_invalid) {
    NameRef n;
    if (allow_invalid && r.chance(1, 14)) { n.invalid = (int) r.below(invalid_items().size()); return n; }
    if (cfg.boundary_bias && !cfg.weights[O_PlantFail] && r.chance(1, 25)) { n.cls = 1000 + (int) r.below(4); n.variant = (int) r.below(2); return n; }
    size_t lim = std::min<size_t>(item_pool().size(), (size_t) cfg.name_classes);
    n.cls = (int) r.below(lim);
    n.variant = r.chance(1, 2) ? 0 : (int) r.below(item_pool()[(size_t) n.cls].variants.size());
    return n;
}
NameRef ApiRun::gen_code(Rng &r, bool allow_invalid) {
    NameRef n;
    if (allow_invalid && r.chance(1, 12)) { n.invalid = (int) r.below(invalid_codes().size()); return n; }
    if (cfg.boundary_bias && !cfg.weights[O_PlantFail] && r.chance(1, 25)) { n.cls = 2000 + (int) r.below(3); n.variant = (int) r.below(2); return n; }
    size_t lim = std::min<size_t>(code_pool().size(), (size_t) cfg.code_classes);
    n.cls = (int) r.below(lim);
    n.variant = r.chance(1, 2) ? 0 : (int) r.below(code_pool()[(size_t) n.cls].variants.size());
    return n;
}
ustr ApiRun::name_str(const NameRef &n, bool simple) const {
    if (n.invalid >= 0) return invalid_items()[(size_t) n.invalid];
    if (n.cls >= 1000) return long_name(n.cls - 1000, simple ? 0 : n.variant);
    return item_pool()[(size_t) n.cls].variants[simple ? 0 : (size_t) n.variant];
}
ustr ApiRun::code_str(const NameRef &n, bool simple) const {
    if (n.invalid >= 0) return invalid_codes()[(size_t) n.invalid];
    if (n.cls >= 2000) return long_code(n.cls - 2000, simple ? 0 : n.variant);
    return code_pool()[(size_t) n.cls].variants[simple ? 0 : (size_t) n.variant];
}

void ApiRun::generate() {
    Rng r(hmix(run_seed_of(spec), hstr("workload")));
    Rng fr(hmix(run_seed_of(spec), hstr("faults")));
    Rng kr(hmix(run_seed_of(spec), hstr("knobs")));
    Rng er(hmix(run_seed_of(spec), hstr("env")));
    // ---- run shape (swarm): sizes, enabled op kinds, weights
    int nops = (int) r.range(cfg.min_ops, cfg.max_ops);
    if (r.chance(1, 10)) nops = (int) r.range(3, 8);           // many bugs need three or fewer operations
    cfg.name_classes = (int) r.range(3, (long) item_pool().size());
    cfg.code_classes = (int) r.range(2, (long) code_pool().size());
    std::vector<unsigned> w = cfg.weights;
    for (size_t i = 0; i < w.size(); ++i) { if (w[i] && r.chance(1, 7)) w[i] = 0; else if (w[i] && r.chance(1, 5)) w[i] *= 3; }
    // never disable the ops needed to get anything going
    w[O_BlockCreate] = std::max(w[O_BlockCreate], cfg.weights[O_BlockCreate]);
    w[O_SetValue] = std::max(w[O_SetValue], cfg.weights[O_SetValue]);
    w[O_LoopCreate] = std::max(w[O_LoopCreate], cfg.weights[O_LoopCreate]);
    w[O_LoopAddPacket] = std::max(w[O_LoopAddPacket], cfg.weights[O_LoopAddPacket]);
    if (cfg.weights[O_IterOpen]) { w[O_IterOpen] = std::max(w[O_IterOpen], cfg.weights[O_IterOpen]); w[O_IterNext] = std::max(w[O_IterNext], cfg.weights[O_IterNext]); w[O_IterClose] = std::max(w[O_IterClose], 1u); }
    if (cfg.weights[O_PlantFail]) w[O_PlantFail] = std::max(w[O_PlantFail], cfg.weights[O_PlantFail]);
    dump_every = r.chance(1, 4) ? 1 : (r.chance(1, 2) ? 4 : 0);
    gcfg.max_depth = (int) r.range(0, cfg.value_depth);
    gcfg.max_members = (int) r.range(1, 6);
    gcfg.allow_long = r.chance(1, 3);
    gcfg.cif11_chars_only = cfg.cif11_values && r.chance(9, 10);
    gcfg.boundary_bias = cfg.boundary_bias;
    gcfg.allow_composite = !(cfg.cif11_values && r.chance(3, 4));
    // ---- knobs / env
    spill_pages = (cfg.spill_den && kr.chance((unsigned) cfg.spill_num, (unsigned) cfg.spill_den)) ? (int) kr.range(1, 8) : 0;
    no_lookaside = kr.chance(1, 4);
    if (cfg.hostile_env) { env.locale = (int) er.below(3); env.rounding = (int) er.below(4); }
    // ---- ops
    ops.clear();
    // prologue so that short runs are not spent on no-ops
    auto push = [&](OpK k) { Op o; o.k = k; o.a = (uint32_t) r.next(); o.b = (uint32_t) r.next(); o.c = (uint32_t) r.next(); o.d = (uint32_t) r.next(); o.seed = r.next(); ops.push_back(o); return &ops.back(); };
    push(O_CifCreate);
    { Op *o = push(O_BlockCreate); o->code = gen_code(r, false); o->b = 1; }
    std::vector<unsigned> wsetup = w;
    for (int k : {O_BlockCreate, O_LoopCreate, O_SetValue, O_LoopAddPacket, O_FrameCreate, O_LoopAddItem}) wsetup[(size_t) k] *= 4;
    for (int i = 0; i < nops; ++i) {
        OpK k = (OpK) r.weighted(i < nops / 3 ? wsetup : w);
        Op *o = push(k);
        switch (k) {
            case O_BlockCreate: case O_BlockGet: case O_FrameCreate: case O_FrameGet: o->code = gen_code(r, true); o->null_arg = r.chance(1, 40); break;
            case O_LoopCreate: {
                int n = r.chance(1, 12) ? 0 : (int) r.range(1, 5);
                for (int j = 0; j < n; ++j) o->names.push_back(gen_name(r, r.chance(1, 3)));
                if (n >= 2 && r.chance(1, 8)) o->names[(size_t) r.below((uint64_t) n)] = o->names[0];     // duplicate inside one call
                o->cat_kind = (int) r.weighted({30, 12, 58}); o->cat_idx = (int) r.below(cat_pool().size());
                o->null_arg = r.chance(1, 50);
                break;
            }
            case O_LoopByCat: o->cat_kind = (int) r.weighted({10, 25, 65}); o->cat_idx = (int) r.below(cat_pool().size()); break;
            case O_LoopSetCat: o->cat_kind = (int) r.weighted({20, 20, 60}); o->cat_idx = (int) r.below(cat_pool().size()); break;
            case O_LoopByItem: case O_GetValue: case O_RemoveItem: o->names.push_back(gen_name(r, true)); break;
            case O_SetValue: case O_LoopAddItem: o->names.push_back(gen_name(r, true)); o->null_arg = r.chance(1, 15); break;
            case O_LoopAddPacket: case O_IterUpdate: case O_PacketNew: {
                o->pk_mode = (int) r.weighted({50, 25, 8, 10, 7});   // 0 all items of the loop, 1 subset, 2 empty, 3 with a foreign item, 4 from a packet slot
                o->pos = (int) r.below(5);
                o->names.push_back(gen_name(r, false));            // the foreign item (if used)
                break;
            }
            case O_IterNext: o->pk_mode = (int) r.weighted({20, 50, 30}); break;   // 0 NULL, 1 fresh, 2 reused packet
            case O_PlantFail: o->pf_kind = (int) r.below(PF_COUNT); o->pos = (int) r.below(3); o->inside_tx = r.chance(1, 3); o->abort_tx = r.chance(1, 3);
                o->names.push_back(gen_name(r, false)); o->names.push_back(gen_name(r, false)); o->names.push_back(gen_name(r, false)); o->code = gen_code(r, false); break;
            case O_Checkpoint: o->a = (uint32_t) r.next(); break;
            default: break;
        }
    }
    // epilogue
    if (cfg.final_checkpoint) { push(O_Dump); push(O_Checkpoint); }
    else push(O_Dump);
    // ---- faults: attached to ops, drawn from their own stream so that enabling them does not shift the workload
    if (cfg.storage_faults && !ops.empty()) {
        int nf = (int) fr.range(1, 2);
        for (int i = 0; i < nf; ++i) {
            Op &o = ops[(size_t) fr.below(ops.size())];
            o.fault_kind = (int) fr.weighted({0, 45, 20, 10, 5, 10, 10});     // 1 write 2 read 3 truncate 4 open 5 sync 6 filesize
            o.fault_at = (long) fr.range(1, fr.chance(1, 2) ? 3 : 25);
            o.fault_code = fr.chance(1, 2) ? SQLITE_FULL : SQLITE_IOERR_WRITE;
            o.fault_sticky = fr.chance(1, 3);
        }
        if (!spill_pages) spill_pages = (int) kr.range(1, 8);     // without a tiny cache the disk is never reached
    }
    if (cfg.write_faults) for (auto &o : ops) if (o.k == O_Checkpoint && fr.chance(1, 2)) { o.fault_kind = 20; o.fault_at = (long) fr.below(fr.chance(1, 2) ? 64 : 6000); }
    // ---- modifiers from a replay file
    if (spec.mods.no_spill) spill_pages = 0;
    if (spec.mods.default_env) env = EnvSeam();
    if (spec.mods.max_ops >= 0 && (size_t) spec.mods.max_ops < ops.size()) ops.resize((size_t) spec.mods.max_ops);
    for (size_t i = 0; i < ops.size(); ++i) {
        if (spec.mods.off.count((int) i)) ops[i].off = true;
        if (spec.mods.no_faults || spec.mods.nofault.count((int) i)) { ops[i].fault_kind = 0; }
        if (spec.mods.simple.count((int) i)) ops[i].simple = true;
    }
}

// ------------------------------------------------------------------------------------------------ slot resolution
int ApiRun::pick_cif(uint32_t x) { std::vector<int> v; for (size_t i = 0; i < cifs.size(); ++i) if (cifs[i].cif) v.push_back((int) i); return v.empty() ? -1 : v[x % v.size()]; }
int ApiRun::pick_cont(uint32_t x, bool need_free_cif) {
    if (forced_cont >= 0) return (conts[(size_t) forced_cont].h && (!need_free_cif || cifs[(size_t) conts[(size_t) forced_cont].cif].iter < 0)) ? forced_cont : -1;
    if (need_free_cif && beside_ok) { int b = pick_cont_beside_iter(x); if (b >= 0) { g_stats.inc("api.query_beside_iterator"); return b; } }
    std::vector<int> v;
    for (size_t i = 0; i < conts.size(); ++i) if (conts[i].h && (!need_free_cif || cifs[(size_t) conts[i].cif].iter < 0)) v.push_back((int) i);
    if (v.empty() || (x % 7 == 0 && conts.size() < 30)) {
        // (re)acquire a handle on some existing container by looking it up from the top, as an application would
        std::vector<std::pair<int, uint64_t>> all;
        std::function<void(int, MCont &)> rec = [&](int ci, MCont &m) { all.push_back({ci, m.uid}); for (auto &f : m.frames) rec(ci, f); };
        for (size_t ci = 0; ci < cifs.size(); ++ci) if (cifs[ci].cif && cifs[ci].iter < 0) for (auto &b : cifs[ci].model.blocks) rec((int) ci, b);
        if (!all.empty()) {
            auto pr = all[(x / 7) % all.size()];
            cif_container_tp *h = NULL;
            bool was = cfg.enumerate_alloc; cfg.enumerate_alloc = false;
            int rc = temp_handle(pr.first, pr.second, &h);
            cfg.enumerate_alloc = was;
            if (rc != CIF_OK || !h) violate("rc", strprintf("lookup:%s", rc_name(rc)), strprintf("looking up an existing container by its codes failed: %s", rc_name(rc)));
            ev("reacquired a container handle");
            return add_cont(h, pr.first, pr.second);
        }
    }
    return v.empty() ? -1 : v[x % v.size()];
}
// A container handle of a CIF on which an iterator is open, other than the container that holds the iterated loop: reading there is
// defined behaviour (cif_loop_get_packets() puts only the iterated loop off limits) and must neither disturb the iteration nor see
// anything but the CIF's current content.  -1 if there is none.
int ApiRun::pick_cont_beside_iter(uint32_t x) {
    // not under allocation-failure enumeration (C17): a storage-engine allocation failure makes SQLite roll back the whole open
    // transaction by itself - the iterator's - whichever call it happens in; that interplay is already covered (and accepted) for the
    // iterator's own calls, which abandon the iterator afterwards
    if (cfg.enumerate_alloc) return -1;
    std::vector<int> v;
    for (size_t i = 0; i < conts.size(); ++i) {
        if (!conts[i].h) continue;
        int it = cifs[(size_t) conts[i].cif].iter; if (it < 0) continue;
        int ls = iters[(size_t) it].loop_slot; if (ls < 0 || loops[(size_t) ls].cont_uid == conts[i].uid) continue;
        if (!mcont((int) i)) continue;
        v.push_back((int) i);
    }
    return v.empty() ? -1 : v[x % v.size()];
}
int ApiRun::pick_loop(uint32_t x, bool need_free_cif, bool allow_stale) {
    if (forced_loop >= 0) { HLoop &f = loops[(size_t) forced_loop]; return (f.h && !f.locked && (allow_stale || !loop_stale(forced_loop)) && (!need_free_cif || cifs[(size_t) f.cif].iter < 0)) ? forced_loop : -1; }
    std::vector<int> v;
    for (size_t i = 0; i < loops.size(); ++i) if (loops[i].h && !loops[i].locked && (allow_stale || !loop_stale((int) i)) && (!need_free_cif || cifs[(size_t) loops[i].cif].iter < 0)) v.push_back((int) i);
    if (v.empty() || (x % 5 == 0 && loops.size() < 30)) {
        // acquire a handle on some existing loop through a container handle we hold (cif_container_get_item_loop)
        std::vector<std::pair<int, uint64_t>> all;
        for (size_t hs = 0; hs < conts.size(); ++hs) if (conts[hs].h && cifs[(size_t) conts[hs].cif].iter < 0) { MCont *m = mcont((int) hs); if (m) for (auto &l : m->loops) all.push_back({(int) hs, l.uid}); }
        if (!all.empty()) {
            auto pr = all[(x / 5) % all.size()];
            MCont *m = mcont(pr.first); MLoop *l = m->loop_by_uid(pr.second);
            cif_loop_tp *h = NULL;
            int rc = cif_container_get_item_loop(conts[(size_t) pr.first].h, UC(l->names[0].orig), &h);
            if (rc != CIF_OK || !h) violate("rc", strprintf("cif_container_get_item_loop:%s!=CIF_OK", rc_name(rc)), strprintf("cif_container_get_item_loop(%s) on an existing item failed: %s", u8(l->names[0].orig).c_str(), rc_name(rc)));
            ev("acquired a loop handle");
            return add_loop(h, conts[(size_t) pr.first].cif, m->uid, l->uid, pr.first);
        }
    }
    return v.empty() ? -1 : v[x % v.size()];
}
MCont *ApiRun::mcont(int slot) { return find_cont(cifs[(size_t) conts[(size_t) slot].cif].model, conts[(size_t) slot].uid); }
MLoop *ApiRun::mloop(int slot) {
    HLoop &l = loops[(size_t) slot];
    MCont *c = find_cont(cifs[(size_t) l.cif].model, l.cont_uid);
    return c ? c->loop_by_uid(l.loop_uid) : NULL;
}
bool ApiRun::loop_stale(int slot) { return mloop(slot) == NULL; }

// ------------------------------------------------------------------------------------------------ bookkeeping of real handles
int ApiRun::add_cont(cif_container_tp *h, int cif, uint64_t uid) { HCont c; c.h = h; c.cif = cif; c.uid = uid; conts.push_back(c); return (int) conts.size() - 1; }
int ApiRun::add_loop(cif_loop_tp *h, int cif, uint64_t cont_uid, uint64_t loop_uid, int via) {
    HLoop l; l.h = h; l.cif = cif; l.cont_uid = cont_uid; l.loop_uid = loop_uid; l.via = via;
    MCont *c = find_cont(cifs[(size_t) cif].model, cont_uid); MLoop *ml = c ? c->loop_by_uid(loop_uid) : NULL;
    if (ml) { l.cached_has_cat = ml->has_cat; l.cached_cat = ml->cat; }
    loops.push_back(l);
    return (int) loops.size() - 1;
}
void ApiRun::free_loop_slot(int i) { HLoop &l = loops[(size_t) i]; if (l.h) { cif_loop_free(l.h); l.h = NULL; } }
void ApiRun::free_cont_slot(int i) {
    // loop handles reference the container handle object they were obtained through: release them first
    for (size_t k = 0; k < loops.size(); ++k) if (loops[k].h && loops[k].via == i) { if (loops[k].locked) close_iter_of_loop((int) k); free_loop_slot((int) k); }
    HCont &c = conts[(size_t) i]; if (c.h) { cif_container_free(c.h); c.h = NULL; }
}
void ApiRun::close_iter_of_loop(int loop_slot) {
    for (auto &ci : cifs) if (ci.cif && ci.iter >= 0 && iters[(size_t) ci.iter].loop_slot == loop_slot) {
        HIter &it = iters[(size_t) ci.iter];
        int rc = cif_pktitr_abort(it.it); (void) rc; it.it = NULL;
        ci.model = it.snapshot; loops[(size_t) loop_slot].locked = false; ci.iter = -1;
    }
}
// a container (and its subtree) ceased to exist in the model: retire every handle into it
void ApiRun::retire_subtree(int cif, const MCont &gone, int except_cont_slot) {
    std::set<uint64_t> uids; std::function<void(const MCont &)> rec = [&](const MCont &c) { uids.insert(c.uid); for (auto &f : c.frames) rec(f); }; rec(gone);
    for (size_t i = 0; i < conts.size(); ++i) if (conts[i].h && conts[i].cif == cif && uids.count(conts[i].uid)) {
        if ((int) i == except_cont_slot) { for (size_t k = 0; k < loops.size(); ++k) if (loops[k].h && loops[k].via == (int) i) free_loop_slot((int) k); continue; }
        // a few of these handles are kept (not used for anything else) to be tried again after later containers have been created:
        // a handle on a container that no longer exists must never start to work again, e.g. by meeting a recycled identifier
        if (zombies.size() < 6 && cifs[(size_t) cif].iter < 0 && !cfg.weights[O_PlantFail] && !cfg.enumerate_alloc) {
            for (size_t k = 0; k < loops.size(); ++k) if (loops[k].h && loops[k].via == (int) i) { if (loops[k].locked) close_iter_of_loop((int) k); free_loop_slot((int) k); }
            Zombie z; z.h = conts[i].h; z.cif = cif; zombies.push_back(z); conts[i].h = NULL; continue;
        }
        free_cont_slot((int) i);
    }
    for (size_t k = 0; k < loops.size(); ++k) if (loops[k].h && loops[k].cif == cif && uids.count(loops[k].cont_uid)) free_loop_slot((int) k);
}

void ApiRun::probe_zombies(int cif, const char *when) {
    for (auto &z : zombies) if (z.h && z.cif == cif) {
        cif_loop_tp **ls = NULL; int r = cif_container_get_all_loops(z.h, &ls); ++g_stats.events; g_stats.inc("api.probe_stale_container_handle");
        if (r == CIF_OK) { size_t n = 0; if (ls) { for (cif_loop_tp **q = ls; *q; ++q) { cif_loop_free(*q); ++n; } lib_free(ls); } violate(cfg.content_clause, "stale_container_handle_works", strprintf("a handle on a container destroyed earlier (through another handle) works again %s: cif_container_get_all_loops returns CIF_OK with %zu loop(s)", when, n)); }
    }
}
void ApiRun::free_zombies(int cif) { for (auto &z : zombies) if (z.h && (cif < 0 || z.cif == cif)) { cif_container_free(z.h); z.h = NULL; } }
// ------------------------------------------------------------------------------------------------ dumps and comparisons
void ApiRun::check_dump(int cif, const char *when) {
    RCif &c = cifs[(size_t) cif];
    if (!c.cif || c.iter >= 0) return;
    MCif real = dump_cif(c.cif, cfg.prop.c_str());
    std::string a = canon(c.model), b = canon(real);
    ev("dump cif%d %016llx", cif, (unsigned long long) hstr(b.c_str()));
    if (a != b) violate(cfg.content_clause, std::string(opk_name(cur_kind)) + ":" + when, strprintf("content of cif%d differs from the model %s: %s", cif, when, first_diff(a, b).c_str()));
    if (sqlite3_get_autocommit(c.cif->db) == 0) violate("autocommit", opk_name(cur_kind), strprintf("a transaction is still open on cif%d %s although no iterator is open", cif, when));
}
void ApiRun::check_all_dumps(const char *when) { for (size_t i = 0; i < cifs.size(); ++i) check_dump((int) i, when); }
void ApiRun::cover(int k, int rc, uint64_t pre) { last_rc = rc; g_stats.cover(hmix(hmix((uint64_t) k, (uint64_t) (rc + 1000)), pre)); }

// expected-result helper: rc must be one of 'ok'; any_err accepts every non-OK code
void ApiRun::expect_rc(const char *fn, int rc, std::initializer_list<int> ok, bool any_err) {
    ev("%s -> %s", fn, rc_name(rc));
    for (int x : ok) if (x == rc) return;
    if (any_err && rc != CIF_OK) return;
    std::string exp; for (int x : ok) { if (!exp.empty()) exp += "|"; exp += rc_name(x); } if (any_err) exp += exp.empty() ? "any-error" : "|any-error";
    violate("rc", strprintf("%s:%s!=%s", fn, rc_name(rc), exp.c_str()), strprintf("%s returned %s, the data model prescribes %s", fn, rc_name(rc), exp.c_str()));
}

// ------------------------------------------------------------------------------------------------ values / packets for ops
cif_value_tp *ApiRun::make_value(const Op &o, MValue &snap, uint64_t salt) {
    Rng r(hmix(o.seed, salt));
    MValue specv = o.simple ? simple_value(o.seed) : gen_value(r, gcfg);
    // one value in forty is a quoted string spelling a reserved word in some letter case (own PRNG stream: the draws of 'r' are not disturbed)
    { Rng rr(hmix(hmix(o.seed, salt), hstr("reserved-word value")));
      if (!o.simple && rr.chance(1, 40)) { static const char *const W[] = { "dAta_", "DAta_x", "dATa_1", "DATa_", "data_", "Data_q", "SAVE_", "sAve_f", "Loop_", "lOOp_", "STOP_", "sTop_", "Global_", "gLOBAL_" }; specv = MValue::chr(U(W[rr.below(14)]), true); g_stats.inc("value.reserved_word_spelling"); } }
    int rc = CIF_OK;
    cif_value_tp *v = build_value(specv, &rc);
    if (!v) violate("value_build", rc_name(rc), strprintf("could not build value %s through the public API: %s", show(specv).c_str(), rc_name(rc)));
    try { snap = snapshot_value(v); } catch (Violation &vi) { cif_value_free(v); violate("value_build", vi.sig, vi.detail); }
    { static const char *sl = getenv("CIFSIM_SHOWLEN"); ev("value %s", show(specv, sl ? (size_t) atoi(sl) : 160).c_str()); }
    std::string a = canon(specv, VE_ROUNDTRIP), b = canon(snap, VE_ROUNDTRIP);
    // VE_ROUNDTRIP folds number kinds; here kinds must match exactly, so compare kind separately
    if (specv.kind != snap.kind || a != b) { cif_value_free(v); violate("value_build", "mismatch", strprintf("value built through the API reads back differently: wanted %s got %s", show(specv).c_str(), show(snap).c_str())); }
    // a quoted string that spells a reserved word: now and then the caller tries to mark it unquoted, which must be refused; if the
    // library lets it through, the value goes on as it now is and the write / re-parse oracles see the consequences
    if (snap.kind == CIF_CHAR_KIND && snap.quoted && is_reserved_word(snap.text) && r.chance(1, 2)) {
        int q = cif_value_try_quoted(v, CIF_NOT_QUOTED);
        ev("cif_value_try_quoted(reserved word, NOT_QUOTED) -> %s", rc_name(q)); g_stats.inc(q == CIF_OK ? "value.reserved_unquote_accepted" : "value.reserved_unquote_refused");
        if (q == CIF_OK) snap = snapshot_value(v);
    }
    return v;
}
// after a store: the caller's object is mutated or released; the stored copy must not care (C07.independent)
void ApiRun::abuse_value(cif_value_tp *v, uint64_t seed) {
    Rng r(seed);
    switch (r.below(4)) {
        case 0: break;
        case 1: { int rc = cif_value_init(v, (cif_kind_tp) r.below(6)); (void) rc; break; }
        case 2: { int rc = cif_value_copy_char(v, UC(U("overwritten"))); (void) rc; break; }
        default: { size_t n = 0; if (cif_value_get_element_count(v, &n) == CIF_OK && n > 0 && cif_value_kind(v) == CIF_LIST_KIND) { int rc = cif_value_remove_element_at(v, 0, NULL); (void) rc; } else cif_value_clean(v); break; }
    }
    cif_value_free(v);
}

// ------------------------------------------------------------------------------------------------ teardown
void ApiRun::teardown() {
    for (size_t i = 0; i < iters.size(); ++i) if (iters[i].it) { int rc = cif_pktitr_abort(iters[i].it); (void) rc; iters[i].it = NULL; }
    for (auto &p : packets) if (p.p) { cif_packet_free(p.p); p.p = NULL; }
    for (size_t i = 0; i < loops.size(); ++i) free_loop_slot((int) i);
    for (size_t i = 0; i < conts.size(); ++i) if (conts[i].h) { cif_container_free(conts[i].h); conts[i].h = NULL; }
    free_zombies(-1);
    for (auto &c : cifs) if (c.cif) { int rc = api("cif_destroy", [&]() { return cif_destroy(c.cif); }, A_NOENUM); c.cif = NULL; if (rc != CIF_OK) violate("destroy", rc_name(rc), strprintf("cif_destroy -> %s", rc_name(rc))); }
}
void ApiRun::check_leaks(long live0, long sq0) {
    if (!cfg.leak_check) return;
    long l1 = g_lalloc.live_blocks(), s1 = sqlite_live_blocks();
    if (l1 != live0) {
        std::string sites = g_lalloc.describe_live(3);
        throw Violation(cfg.prop + ".leak", sites, strprintf("%ld block(s) allocated by the library are still live after every object was released and every CIF destroyed; allocation site(s): %s", l1 - live0, sites.c_str()), -1);
    }
    if (s1 != sq0) throw Violation(cfg.prop + ".leak", "sqlite", strprintf("%ld storage-engine allocation(s) still live after all CIFs were destroyed", s1 - sq0), -1);
    if (g_disk.live_files() != 0) throw Violation(cfg.prop + ".leak", "tempfile", strprintf("%zu temporary storage file(s) left behind", g_disk.live_files()), -1);
}

// ------------------------------------------------------------------------------------------------ running
RunResult ApiRun::run() {
    RunResult res;
    generate();
    res.n_ops = (int) ops.size();
    for (size_t i = 0; i < ops.size(); ++i) if (ops[i].fault_kind) res.fault_ops.push_back((int) i);
    g_plan_n_ops = res.n_ops; g_plan_fault_ops = res.fault_ops; plan_ready();
    g_disk.cache_pages = spill_pages; g_disk.no_lookaside = no_lookaside;
    if (spill_pages) g_stats.inc("knob.spill_runs");
    g_env = env; g_env.apply();
    ev("run %s seed=%llu run=%llu ops=%zu spill=%d lookaside=%d env=%d/%d dump_every=%d", cfg.prop.c_str(), (unsigned long long) spec.seed, (unsigned long long) spec.run, ops.size(), spill_pages, no_lookaside ? 0 : 1, env.locale, env.rounding, dump_every);
    long live0 = g_lalloc.live_blocks(), sq0 = sqlite_live_blocks();
    try {
        for (size_t i = 0; i < ops.size(); ++i) {
            if (ops[i].off) continue;
            cur_op = (int) i; cur_kind = ops[i].k;
            exec(ops[i]);
            if (absorbed_pending) { absorbed_pending = false; check_all_dumps("after a call that completed although an allocation failed"); }
        }
        cur_op = -1;
        teardown();
        check_leaks(live0, sq0);
        txm.finish();
    } catch (Violation &) {
        g_lalloc.disarm(); g_salloc.disarm(); g_disk.disarm();
        throw;
    }
    g_stats.inc("disk.reads", (uint64_t) g_disk.n_read); g_stats.inc("disk.writes", (uint64_t) g_disk.n_write); g_stats.inc("disk.opens", (uint64_t) g_disk.n_open);
    return res;
}
