// seams.cpp -- every source of nondeterminism / fault that cif_api meets, owned by the simulator:
//   libcif heap (objcopy-redirected malloc family), SQLite heap (sqlite3_mem_methods), simulated disk (sqlite3_vfs),
//   page-cache / lookaside knobs (auto-extension), byte streams (fopencookie), process environment.
#include "sim.hpp"
#include <execinfo.h>
#include <sqlite3.h>
#include <cerrno>
#include <clocale>
#include <cfenv>
#include <unistd.h>
#include <unicode/ucnv.h>
#include <unicode/ustdio.h>
#include <unicode/unorm2.h>

Stats g_stats;
EventLog g_log;
AllocSeam g_lalloc, g_salloc;
DiskSeam g_disk;
EnvSeam g_env;
bool g_livelock_tripped = false;

// ------------------------------------------------------------------------------------------------ libcif heap
struct Site { void *ra[6]; };
static std::unordered_map<void *, Site> *g_live;   // block -> allocation call chain (return addresses, innermost first)
static inline std::unordered_map<void *, Site> &live() {
    if (!g_live) g_live = new std::unordered_map<void *, Site>();
    return *g_live;
}
// walks the frame-pointer chain (libcif and the harness are built with -fno-omit-frame-pointer)
static inline Site capture_site(void *fp0, void *ra0) {
    Site s; for (int i = 0; i < 6; ++i) s.ra[i] = NULL;
    s.ra[0] = ra0;
    void **fp = (void **) fp0;
    for (int i = 1; i < 6 && fp; ++i) {
        void **next = (void **) fp[0];
        void *ra = fp[1];
        if (!ra || next <= fp || (char *) next - (char *) fp > (1 << 20)) break;
        s.ra[i] = ra; fp = next;
    }
    return s;
}
#define HERE capture_site(__builtin_frame_address(0), __builtin_return_address(0))
static inline bool lalloc_should_fail() {
    if (!g_lalloc.armed) return false;
    ++g_lalloc.count;
    ++g_stats.events;
    if (g_lalloc.fail_at > 0 && g_lalloc.count == g_lalloc.fail_at) { g_lalloc.fired = true; g_lalloc.n_fire_ra = backtrace(g_lalloc.fire_ra, 24); snprintf(g_lalloc.fire_exec_sql, sizeof g_lalloc.fire_exec_sql, "%s", g_exec_sql ? g_exec_sql : ""); return true; }
    return false;
}
extern "C" void *cifsim_malloc(size_t n) {
    if (lalloc_should_fail()) return NULL;
    void *p = malloc(n);
    if (p) live()[p] = HERE;
    return p;
}
extern "C" void *cifsim_calloc(size_t a, size_t b) {
    if (lalloc_should_fail()) return NULL;
    void *p = calloc(a, b);
    if (p) live()[p] = HERE;
    return p;
}
extern "C" void *cifsim_realloc(void *old, size_t n) {
    if (lalloc_should_fail()) return NULL;
    Site site = HERE;
    void *p = realloc(old, n);
    if (p || n == 0) { if (old) live().erase(old); }
    if (p) live()[p] = site;
    return p;
}
extern "C" char *cifsim_strdup(const char *s) {
    if (lalloc_should_fail()) return NULL;
    char *p = strdup(s);
    if (p) live()[p] = HERE;
    return p;
}
extern "C" void cifsim_free(void *p) {
    if (!p) return;
    live().erase(p);      // blocks from other domains (ICU, harness new[]) are simply passed through
    free(p);
}
long AllocSeam::live_blocks() { return (this == &g_lalloc) ? (long) live().size() : sqlite_live_blocks(); }

static std::string symbolize(void *addr) {
    char cmd[256];
    snprintf(cmd, sizeof cmd, "llvm-symbolizer-14 --obj=/proc/%d/exe --functions=short --no-inlines %p 2>/dev/null",
             (int) getpid(), (void *) ((char *) addr - 1));
    FILE *f = popen(cmd, "r");
    if (!f) return "?";
    char l1[256] = "?", l2[256] = "";
    if (fgets(l1, sizeof l1, f)) { if (!fgets(l2, sizeof l2, f)) l2[0] = 0; }
    pclose(f);
    std::string fn(l1), loc(l2);
    while (!fn.empty() && (fn.back() == '\n')) fn.pop_back();
    while (!loc.empty() && (loc.back() == '\n')) loc.pop_back();
    size_t sl = loc.rfind('/');
    if (sl != std::string::npos) loc = loc.substr(sl + 1);
    return fn + "@" + loc;
}
const char *g_exec_sql = NULL;
extern "C" int cifsim_sqlite3_exec(sqlite3 *db, const char *sql, int (*cb)(void *, int, char **, char **), void *arg, char **err) {
    const char *prev = g_exec_sql; g_exec_sql = sql;
    int rc = sqlite3_exec(db, sql, cb, arg, err);
    g_exec_sql = prev;
    return rc;
}
void TxMonitor::check(const std::string &prop, const char *fn, int rc, sqlite3 *db, const char *which, bool sq, long k) {
    if (!db || sqlite3_get_autocommit(db) != 0) return;
    AllocSeam &A = sq ? g_salloc : g_lalloc;
    std::string site = A.describe_fire();
    std::string detail = strprintf("%s returned %s after %s allocation #%ld failed and left a transaction open on %s although no iterator is open [failed at %s]", fn, rc_name(rc), sq ? "storage-engine" : "library", k, which, site.c_str());
    if (A.fire_exec_sql[0]) {
        // the library's own transaction-control statement could not be compiled
        g_stats.inc("c17.tx_control_oom");
        ev("%s: transaction left open because \"%s\" failed for lack of memory; rolled back by the harness", fn, A.fire_exec_sql);
        if (!deferred) deferred.reset(new Violation(prop + ".autocommit", std::string("tx_control_oom:") + A.fire_exec_sql, detail + strprintf(" [the failed allocation was inside the library's own \"%s\"]", A.fire_exec_sql), -1));
        int q = sqlite3_exec(db, "rollback", NULL, NULL, NULL); (void) q;
        return;
    }
    throw Violation(prop + ".autocommit", fn, detail, -1);
}
std::string AllocSeam::describe_fire() {
    // where the last injected failure happened: the libcif frames of its call chain, innermost first
    std::string out; int n = 0;
    for (int i = 0; i < n_fire_ra && n < 4; ++i) {
        std::string s = symbolize((char *) fire_ra[i] - 1);
        if (s.find(".c:") == std::string::npos) continue;
        if (n++) out += "<-";
        out += s;
    }
    return out.empty() ? std::string("?") : out;
}
std::string AllocSeam::describe_live(size_t max) {
    // for each live block: the outermost libcif frame of its allocation chain (the API-level function), plus the innermost
    std::vector<std::string> sites;
    size_t n = 0;
    for (auto &kv : live()) {
        if (n++ >= 32) break;
        std::string inner, outer;
        for (int i = 0; i < 6 && kv.second.ra[i]; ++i) {
            std::string s = symbolize(kv.second.ra[i]);
            if (s.find(".c:") == std::string::npos) continue;      // harness (C++) frames are not interesting
            if (inner.empty()) inner = s;
            outer = s;
        }
        std::string fn = outer.substr(0, outer.find('@'));
        std::string in = inner.substr(0, inner.find('@'));
        sites.push_back(fn.empty() ? std::string("?") : (fn == in ? fn : fn + "<-" + in));
    }
    std::sort(sites.begin(), sites.end());
    sites.erase(std::unique(sites.begin(), sites.end()), sites.end());
    std::string out;
    for (size_t i = 0; i < sites.size() && i < max; ++i) { if (i) out += ","; out += sites[i]; }
    return out;
}

// ------------------------------------------------------------------------------------------------ SQLite heap
static long g_sq_live = 0;
long sqlite_live_blocks() { return g_sq_live; }
static inline bool salloc_should_fail() {
    if (!g_salloc.armed) return false;
    ++g_salloc.count;
    ++g_stats.events;
    if (g_salloc.fail_at > 0 && g_salloc.count == g_salloc.fail_at) { g_salloc.fired = true; g_salloc.n_fire_ra = backtrace(g_salloc.fire_ra, 24); snprintf(g_salloc.fire_exec_sql, sizeof g_salloc.fire_exec_sql, "%s", g_exec_sql ? g_exec_sql : ""); return true; }
    return false;
}
static void *sq_malloc(int n) {
    if (salloc_should_fail()) return NULL;
    int64_t *p = (int64_t *) malloc((size_t) n + 8);
    if (!p) return NULL;
    p[0] = n; ++g_sq_live;
    return p + 1;
}
static void sq_free(void *v) {
    if (!v) return;
    --g_sq_live;
    free(((int64_t *) v) - 1);
}
static void *sq_realloc(void *v, int n) {
    if (!v) return sq_malloc(n);
    if (salloc_should_fail()) return NULL;
    int64_t *p = (int64_t *) realloc(((int64_t *) v) - 1, (size_t) n + 8);
    if (!p) return NULL;
    p[0] = n;
    return p + 1;
}
static int sq_size(void *v) { return v ? (int) ((int64_t *) v)[-1] : 0; }
static int sq_roundup(int n) { return (n + 7) & ~7; }
static int sq_init(void *) { return SQLITE_OK; }
static void sq_shutdown(void *) {}

// ------------------------------------------------------------------------------------------------ simulated disk
struct MemFileData { std::vector<unsigned char> bytes; };
static std::map<std::string, std::shared_ptr<MemFileData>> *g_files;
static std::map<std::string, std::shared_ptr<MemFileData>> &files() {
    if (!g_files) g_files = new std::map<std::string, std::shared_ptr<MemFileData>>();
    return *g_files;
}
static uint64_t g_tmp_counter = 0;
static Rng g_vfs_rng(12345);
struct MemFile {
    sqlite3_file base;
    std::shared_ptr<MemFileData> *data;   // heap-allocated holder (sqlite owns raw memory of MemFile)
    std::string *name;
    int delete_on_close;
};
static int disk_fault(int kind) {
    ++g_stats.events;
    if (!g_disk.armed) return 0;
    if (g_disk.fail_kind != 7 && g_disk.fail_kind != kind) return 0;
    ++g_disk.count;
    if (g_disk.fail_at > 0 && (g_disk.count == g_disk.fail_at || (g_disk.sticky && g_disk.fired && g_disk.count > g_disk.fail_at))) {
        g_disk.fired = true;
        g_stats.inc("fault.disk.fired");
        switch (kind) {
            case 1: return (g_disk.fail_code == SQLITE_FULL) ? SQLITE_FULL : SQLITE_IOERR_WRITE;
            case 2: return SQLITE_IOERR_READ;
            case 3: return SQLITE_IOERR_TRUNCATE;
            case 4: return SQLITE_CANTOPEN;
            case 5: return SQLITE_IOERR_FSYNC;
            case 6: return SQLITE_IOERR_FSTAT;
        }
        return SQLITE_IOERR;
    }
    return 0;
}
static int mf_close(sqlite3_file *f) {
    MemFile *m = (MemFile *) f;
    if (m->delete_on_close && m->name) files().erase(*m->name);
    delete m->data; delete m->name; m->data = NULL; m->name = NULL;
    return SQLITE_OK;
}
static int mf_read(sqlite3_file *f, void *buf, int amt, sqlite3_int64 ofs) {
    MemFile *m = (MemFile *) f;
    ++g_disk.n_read;
    int rc = disk_fault(2);
    if (rc) return rc;
    auto &b = (*m->data)->bytes;
    if ((size_t) ofs >= b.size()) { memset(buf, 0, amt); return SQLITE_IOERR_SHORT_READ; }
    size_t avail = b.size() - (size_t) ofs;
    if (avail >= (size_t) amt) { memcpy(buf, b.data() + ofs, amt); return SQLITE_OK; }
    memcpy(buf, b.data() + ofs, avail); memset((char *) buf + avail, 0, amt - avail);
    return SQLITE_IOERR_SHORT_READ;
}
static int mf_write(sqlite3_file *f, const void *buf, int amt, sqlite3_int64 ofs) {
    MemFile *m = (MemFile *) f;
    ++g_disk.n_write;
    int rc = disk_fault(1);
    if (rc) return rc;
    auto &b = (*m->data)->bytes;
    if (b.size() < (size_t) (ofs + amt)) b.resize((size_t) (ofs + amt), 0);
    memcpy(b.data() + ofs, buf, amt);
    return SQLITE_OK;
}
static int mf_truncate(sqlite3_file *f, sqlite3_int64 size) {
    MemFile *m = (MemFile *) f;
    ++g_disk.n_trunc;
    int rc = disk_fault(3);
    if (rc) return rc;
    auto &b = (*m->data)->bytes;
    if ((size_t) size < b.size()) b.resize((size_t) size);
    return SQLITE_OK;
}
static int mf_sync(sqlite3_file *, int) { ++g_disk.n_sync; int rc = disk_fault(5); return rc ? rc : SQLITE_OK; }
static int mf_filesize(sqlite3_file *f, sqlite3_int64 *out) {
    MemFile *m = (MemFile *) f;
    int rc = disk_fault(6);
    if (rc) return rc;
    *out = (sqlite3_int64) (*m->data)->bytes.size();
    return SQLITE_OK;
}
static int mf_lock(sqlite3_file *, int) { return SQLITE_OK; }
static int mf_unlock(sqlite3_file *, int) { return SQLITE_OK; }
static int mf_check(sqlite3_file *, int *out) { *out = 0; return SQLITE_OK; }
static int mf_control(sqlite3_file *, int, void *) { return SQLITE_NOTFOUND; }
static int mf_sector(sqlite3_file *) { return 512; }
static int mf_devchar(sqlite3_file *) { return 0; }
static const sqlite3_io_methods g_mf_methods = {
    1, mf_close, mf_read, mf_write, mf_truncate, mf_sync, mf_filesize, mf_lock, mf_unlock, mf_check, mf_control,
    mf_sector, mf_devchar, 0, 0, 0, 0, 0, 0
};
static int vfs_open(sqlite3_vfs *, const char *zName, sqlite3_file *f, int flags, int *outFlags) {
    MemFile *m = (MemFile *) f;
    m->base.pMethods = NULL;   // per contract: if xOpen fails, pMethods NULL means xClose is not called
    ++g_disk.n_open;
    int rc = disk_fault(4);
    if (rc) return rc;
    std::string name;
    if (zName) name = zName; else name = strprintf("<tmp%llu>", (unsigned long long) ++g_tmp_counter);
    auto it = files().find(name);
    std::shared_ptr<MemFileData> d;
    if (it == files().end()) {
        if (!(flags & SQLITE_OPEN_CREATE) && zName) return SQLITE_CANTOPEN;
        d = std::make_shared<MemFileData>();
        files()[name] = d;
    } else d = it->second;
    m->data = new std::shared_ptr<MemFileData>(d);
    m->name = new std::string(name);
    m->delete_on_close = ((flags & SQLITE_OPEN_DELETEONCLOSE) || !zName) ? 1 : 0;
    m->base.pMethods = &g_mf_methods;
    if (outFlags) *outFlags = flags;
    return SQLITE_OK;
}
static int vfs_delete(sqlite3_vfs *, const char *zName, int) { ++g_disk.n_delete; files().erase(zName); return SQLITE_OK; }
static int vfs_access(sqlite3_vfs *, const char *zName, int, int *out) { *out = files().count(zName) ? 1 : 0; return SQLITE_OK; }
static int vfs_fullpath(sqlite3_vfs *, const char *zName, int n, char *out) { snprintf(out, n, "%s", zName); return SQLITE_OK; }
static void *vfs_dlopen(sqlite3_vfs *, const char *) { return NULL; }
static void vfs_dlerror(sqlite3_vfs *, int n, char *msg) { if (n > 0) msg[0] = 0; }
static void (*vfs_dlsym(sqlite3_vfs *, void *, const char *))(void) { return NULL; }
static void vfs_dlclose(sqlite3_vfs *, void *) {}
static int vfs_random(sqlite3_vfs *, int n, char *out) { for (int i = 0; i < n; ++i) out[i] = (char) g_vfs_rng.next(); return n; }
static int vfs_sleep(sqlite3_vfs *, int) { return 0; }
static int vfs_time(sqlite3_vfs *, double *t) { *t = 2460000.5; return SQLITE_OK; }
static int vfs_lasterr(sqlite3_vfs *, int, char *) { return 0; }
static sqlite3_vfs g_vfs = {
    1, (int) sizeof(MemFile), 512, NULL, "cifsim", NULL,
    vfs_open, vfs_delete, vfs_access, vfs_fullpath, vfs_dlopen, vfs_dlerror, vfs_dlsym, vfs_dlclose,
    vfs_random, vfs_sleep, vfs_time, vfs_lasterr, NULL, NULL, NULL, NULL
};
void DiskSeam::reset_run() {
    files().clear();
    n_open = n_read = n_write = n_trunc = n_sync = n_delete = 0;
    disarm(); cache_pages = 0; no_lookaside = false; fired = false; count = 0;
}
size_t DiskSeam::live_files() { return files().size(); }
void seams_seed_vfs(uint64_t seed) { g_vfs_rng.seed(seed); g_tmp_counter = 0; }

// page-cache / lookaside knobs: applied to every connection libcif opens
static int auto_ext(sqlite3 *db, char **, const void *) {
    if (g_disk.no_lookaside) sqlite3_db_config(db, SQLITE_DBCONFIG_LOOKASIDE, NULL, 0, 0);
    if (g_disk.cache_pages > 0) {
        char sql[64];
        snprintf(sql, sizeof sql, "PRAGMA cache_size=%d", g_disk.cache_pages);
        sqlite3_exec(db, sql, NULL, NULL, NULL);
    }
    return SQLITE_OK;
}

// ------------------------------------------------------------------------------------------------ streams
static ssize_t in_read(void *c, char *buf, size_t n) {
    SimIn *s = (SimIn *) c;
    ++s->reads; ++g_stats.events;
    if (s->ended) {
        if (++s->reads_after_end > s->livelock_budget) {
            // deterministic livelock detector: the library keeps polling a stream that already reported EOF / error
            g_livelock_tripped = true;
            fflush(NULL);
            _exit(78);
        }
        if (s->eio_fired) { errno = EIO; return -1; }
        return 0;
    }
    size_t limit = s->data.size();
    int kind = 0;   // what happens at 'limit': 0 genuine EOF, 1 premature EOF (truncated file), 2 read error
    if (s->eof_at >= 0 && (size_t) s->eof_at < limit) { limit = (size_t) s->eof_at; kind = 1; }
    if (s->eio_at >= 0 && (size_t) s->eio_at <= limit) { limit = (size_t) s->eio_at; kind = 2; }
    if (s->pos >= limit) {
        s->ended = true;
        if (kind == 2) { s->eio_fired = true; g_stats.inc("fault.stream_eio.fired"); errno = EIO; return -1; }
        if (kind == 1) { s->eof_fired = true; g_stats.inc("fault.stream_trunc.fired"); }
        return 0;
    }
    size_t k = std::min(n, limit - s->pos);
    if (s->chunk && k > s->chunk) k = s->chunk;
    memcpy(buf, s->data.data() + s->pos, k);
    s->pos += k;
    return (ssize_t) k;
}
static int in_close(void *) { return 0; }
FILE *SimIn::open() {
    pos = 0; reads = 0; reads_after_end = 0; ended = eio_fired = eof_fired = false;
    cookie_io_functions_t io = { in_read, NULL, NULL, in_close };
    return fopencookie(this, "rb", io);
}
static ssize_t out_write(void *c, const char *buf, size_t n) {
    SimOut *s = (SimOut *) c;
    ++s->writes; ++g_stats.events;
    if (s->err_at >= 0 && (long) s->data.size() >= s->err_at) {
        if (!s->err_fired) g_stats.inc("fault.stream_write_err.fired");
        s->err_fired = true; errno = ENOSPC; return 0;
    }
    size_t k = n;
    if (s->max_accept && k > s->max_accept) k = s->max_accept;
    if (s->err_at >= 0 && s->data.size() + k > (size_t) s->err_at) { k = (size_t) s->err_at - s->data.size(); if (!s->err_fired) g_stats.inc("fault.stream_write_err.fired"); s->err_fired = true; }
    if (k == 0) { s->err_fired = true; errno = ENOSPC; return 0; }
    s->data.insert(s->data.end(), (const unsigned char *) buf, (const unsigned char *) buf + k);
    return (ssize_t) k;
}
FILE *SimOut::open() {
    data.clear(); err_fired = false; writes = 0;
    cookie_io_functions_t io = { NULL, out_write, NULL, in_close };
    return fopencookie(this, "wb", io);
}

// ------------------------------------------------------------------------------------------------ environment
static const char *const LOCALES[] = { "C", "C.utf8", "POSIX" };
static const int ROUNDINGS[] = { FE_TONEAREST, FE_UPWARD, FE_DOWNWARD, FE_TOWARDZERO };
static const char *const CONVERTERS[] = { NULL, "UTF-8", "ISO-8859-1", "US-ASCII", "windows-1252" };
static std::string g_default_converter;
void EnvSeam::apply() {
    setlocale(LC_NUMERIC, LOCALES[locale % 3]);
    fesetround(ROUNDINGS[rounding % 4]);
    ucnv_setDefaultName(converter ? CONVERTERS[converter % 5] : g_default_converter.c_str());
}
void EnvSeam::reset() { locale = 0; rounding = 0; converter = 0; apply(); }
std::string EnvSeam::cur_locale() { const char *l = setlocale(LC_NUMERIC, NULL); return l ? l : "(null)"; }
int EnvSeam::cur_rounding() { return fegetround(); }

// ------------------------------------------------------------------------------------------------ probes
void probes_collect() {
    static const char *const names[16] = {
        "probe.scanbuf_reset", "probe.scanbuf_compact", "probe.scanbuf_grow", "probe.cr_translated", "probe.crlf_folded",
        "probe.5", "probe.6", "probe.7", "probe.bytebuf_refill", "probe.bytebuf_eof", "probe.convert_overflow",
        "probe.11", "probe.12", "probe.13", "probe.14", "probe.15" };
    for (int i = 0; i < 16; ++i) if (cif_verif_probe[i]) { g_stats.inc(names[i], cif_verif_probe[i]); cif_verif_probe[i] = 0; }
}

// ------------------------------------------------------------------------------------------------ init / warm-up
void seams_global_init() {
    static bool done = false;
    if (done) return;
    done = true;
    static sqlite3_mem_methods mm = { sq_malloc, sq_free, sq_realloc, sq_size, sq_roundup, sq_init, sq_shutdown, NULL };
    if (sqlite3_config(SQLITE_CONFIG_MALLOC, &mm) != SQLITE_OK) { fprintf(stderr, "cifsim: sqlite3_config(MALLOC) failed\n"); _exit(2); }
    sqlite3_config(SQLITE_CONFIG_MEMSTATUS, 0);
    if (sqlite3_vfs_register(&g_vfs, 1) != SQLITE_OK) { fprintf(stderr, "cifsim: vfs_register failed\n"); _exit(2); }
    sqlite3_initialize();
    sqlite3_auto_extension((void (*)(void)) auto_ext);
    setlocale(LC_ALL, "C");
    g_default_converter = ucnv_getDefaultName();
    // warm up lazy one-time initialisation in ICU and SQLite so that it never lands inside a measured run
    {
        UErrorCode ec = U_ZERO_ERROR;
        unorm2_getNFCInstance(&ec); unorm2_getNFDInstance(&ec);
        UChar *n = NULL; static const UChar s[] = { '_', 0x00c5, 'x', 0xd801, 0xdc00, 0 };
        if (cif_normalize(s, -1, &n) == CIF_OK) lib_free(n);
        for (const char *cv : { (const char *) NULL, "UTF-8", "ISO-8859-1", "US-ASCII", "windows-1252", "UTF-16LE", "UTF-16BE", "UTF-32LE", "UTF-32BE", "UTF-16", "UTF-32" }) {
            ec = U_ZERO_ERROR; UConverter *c = ucnv_open(cv, &ec); if (c) ucnv_close(c);
        }
        cif_tp *cif = NULL;
        SimIn in; const char *doc = "#\\#CIF_2.0\ndata_w _a 1 _b 'x' loop_ _c _d 1 [2 {'k':3}] \n;t\n;\n5\n";
        in.data.assign(doc, doc + strlen(doc));
        FILE *f = in.open();
        struct cif_parse_opts_s *o = NULL;
        if (cif_parse_options_create(&o) == CIF_OK) {
            o->error_callback = cif_parse_error_ignore;
            int rc = cif_parse(f, o, &cif); (void) rc;
            lib_free(o);
        }
        fclose(f);
        if (cif) {
            SimOut out; FILE *g = out.open();
            int rc = cif_write(g, NULL, cif); (void) rc; fclose(g);
            struct cif_write_opts_s *wo = NULL;
            if (cif_write_options_create(&wo) == CIF_OK) { wo->cif_version = 1; g = out.open(); rc = cif_write(g, wo, cif); fclose(g); lib_free(wo); }
            rc = cif_destroy(cif);
        }
        cif_value_tp *v = NULL;
        if (cif_value_create(CIF_UNK_KIND, &v) == CIF_OK) { int rc = cif_value_autoinit_numb(v, 1.5, 0.25, 19); (void) rc; cif_value_free(v); }
    }
    g_disk.reset_run();
    g_stats = Stats();
    for (int i = 0; i < 16; ++i) cif_verif_probe[i] = 0;
}

// ------------------------------------------------------------------------------------------------ misc helpers
std::string strprintf(const char *fmt, ...) {
    va_list ap; va_start(ap, fmt);
    char buf[2048];
    int n = vsnprintf(buf, sizeof buf, fmt, ap);
    va_end(ap);
    if (n < (int) sizeof buf) return std::string(buf, n < 0 ? 0 : n);
    std::string s((size_t) n + 1, 0);
    va_start(ap, fmt); vsnprintf(&s[0], s.size(), fmt, ap); va_end(ap);
    s.resize((size_t) n);
    return s;
}
void ev(const char *fmt, ...) {
    va_list ap; va_start(ap, fmt);
    char buf[1024];
    int n = vsnprintf(buf, sizeof buf, fmt, ap);
    va_end(ap);
    if (n < 0) n = 0;
    if (n >= (int) sizeof buf) n = sizeof buf - 1;
    g_log.add(std::string(buf, n));
}
std::string u8(const ustr &s) {
    std::string o;
    for (char16_t c : s) {
        if (c >= 0x20 && c < 0x7f && c != '\\') o += (char) c;
        else { char b[8]; snprintf(b, sizeof b, "\\u%04x", (unsigned) c); o += b; }
    }
    return o;
}
std::string u8(const UChar *s) { return s ? u8(from_uchar(s)) : std::string("(null)"); }
ustr U(const char *a) { ustr r; for (; *a; ++a) r += (char16_t) (unsigned char) *a; return r; }
ustr from_uchar(const UChar *s) { ustr r; if (s) for (; *s; ++s) r += (char16_t) *s; return r; }
UChar *lib_ustrdup(const ustr &s) {
    bool was = g_lalloc.armed; g_lalloc.armed = false;     // harness-side allocation: never faulted, never counted
    UChar *p = (UChar *) cifsim_malloc((s.size() + 1) * sizeof(UChar));
    g_lalloc.armed = was;
    if (!p) { fprintf(stderr, "cifsim: out of memory\n"); _exit(2); }
    memcpy(p, s.data(), s.size() * sizeof(UChar)); p[s.size()] = 0;
    return p;
}
std::string Mods::str() const {
    std::string o;
    auto setstr = [](const std::set<int> &s) { std::string r; for (int i : s) { if (!r.empty()) r += ","; r += std::to_string(i); } return r; };
    if (!off.empty()) o += "off=" + setstr(off) + "\n";
    if (!nofault.empty()) o += "nofault=" + setstr(nofault) + "\n";
    if (!simple.empty()) o += "simple=" + setstr(simple) + "\n";
    if (no_faults) o += "no_faults=1\n";
    if (default_knobs) o += "default_knobs=1\n";
    if (default_env) o += "default_env=1\n";
    if (no_spill) o += "no_spill=1\n";
    if (max_ops >= 0) o += "max_ops=" + std::to_string(max_ops) + "\n";
    return o;
}
static std::set<int> parse_set(const std::string &v) {
    std::set<int> s; size_t i = 0;
    while (i < v.size()) { size_t j = v.find(',', i); if (j == std::string::npos) j = v.size(); if (j > i) s.insert(atoi(v.substr(i, j - i).c_str())); i = j + 1; }
    return s;
}
bool Mods::parse_kv(const std::string &k, const std::string &v) {
    if (k == "off") off = parse_set(v);
    else if (k == "nofault") nofault = parse_set(v);
    else if (k == "simple") simple = parse_set(v);
    else if (k == "no_faults") no_faults = atoi(v.c_str()) != 0;
    else if (k == "default_knobs") default_knobs = atoi(v.c_str()) != 0;
    else if (k == "default_env") default_env = atoi(v.c_str()) != 0;
    else if (k == "no_spill") no_spill = atoi(v.c_str()) != 0;
    else if (k == "max_ops") max_ops = atoi(v.c_str());
    else return false;
    return true;
}
uint64_t run_seed_of(const RunSpec &s) { return hmix(hmix(s.seed, hstr(s.prop.c_str())), s.run); }

const char *rc_name(int rc) {
    switch (rc) {
#define X(n) case n: return #n;
        X(CIF_OK) X(CIF_FINISHED) X(CIF_ERROR) X(CIF_MEMORY_ERROR) X(CIF_INVALID_HANDLE) X(CIF_INTERNAL_ERROR)
        X(CIF_ARGUMENT_ERROR) X(CIF_MISUSE) X(CIF_NOT_SUPPORTED) X(CIF_ENVIRONMENT_ERROR) X(CIF_CLIENT_ERROR)
        X(CIF_DUP_BLOCKCODE) X(CIF_INVALID_BLOCKCODE) X(CIF_NOSUCH_BLOCK) X(CIF_DUP_FRAMECODE) X(CIF_INVALID_FRAMECODE)
        X(CIF_NOSUCH_FRAME) X(CIF_CAT_NOT_UNIQUE) X(CIF_INVALID_CATEGORY) X(CIF_NOSUCH_LOOP) X(CIF_RESERVED_LOOP)
        X(CIF_WRONG_LOOP) X(CIF_EMPTY_LOOP) X(CIF_NULL_LOOP) X(CIF_DUP_ITEMNAME) X(CIF_INVALID_ITEMNAME) X(CIF_NOSUCH_ITEM)
        X(CIF_AMBIGUOUS_ITEM) X(CIF_INVALID_PACKET) X(CIF_PARTIAL_PACKET) X(CIF_DISALLOWED_VALUE) X(CIF_INVALID_NUMBER)
        X(CIF_INVALID_INDEX) X(CIF_INVALID_BARE_VALUE) X(CIF_INVALID_CHAR) X(CIF_UNMAPPED_CHAR) X(CIF_DISALLOWED_CHAR)
        X(CIF_MISSING_SPACE) X(CIF_MISSING_ENDQUOTE) X(CIF_UNCLOSED_TEXT) X(CIF_OVERLENGTH_LINE) X(CIF_DISALLOWED_INITIAL_CHAR)
        X(CIF_WRONG_ENCODING) X(CIF_NO_BLOCK_HEADER) X(CIF_FRAME_NOT_ALLOWED) X(CIF_NO_FRAME_TERM) X(CIF_UNEXPECTED_TERM)
        X(CIF_EOF_IN_FRAME) X(CIF_RESERVED_WORD) X(CIF_MISSING_VALUE) X(CIF_UNEXPECTED_VALUE) X(CIF_UNEXPECTED_DELIM)
        X(CIF_MISSING_DELIM) X(CIF_MISSING_KEY) X(CIF_UNQUOTED_KEY) X(CIF_MISQUOTED_KEY) X(CIF_NULL_KEY)
#undef X
    }
    static char buf[8][24]; static int k = 0; k = (k + 1) % 8;
    snprintf(buf[k], sizeof buf[k], "rc%d", rc);
    return buf[k];
}
