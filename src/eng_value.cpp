// eng_value.cpp -- the value engine (C19; also the value workload of C16/C17): seeded histories over free-standing values,
// lists, tables and packets mirrored in the reference value model; structural comparison of every live object after
// every step shows shallow copies, lost members, wrong ownership.
#include "model.hpp"
#include "gen.hpp"
#include "faultenum.hpp"
#include <cmath>
bool rc_defined(int rc);   // doceng.cpp

enum VOp { V_CREATE, V_INIT, V_INIT_CHAR, V_COPY_CHAR, V_PARSE_NUMB, V_INIT_NUMB, V_AUTOINIT, V_SET_QUOTED, V_CLEAN, V_FREE, V_CLONE_NEW, V_CLONE_ONTO,
    V_L_COUNT, V_L_GET, V_L_SET, V_L_INSERT, V_L_REMOVE, V_T_SET, V_T_GET, V_T_REMOVE, V_T_KEYS, V_P_CREATE, V_P_NAMES, V_P_SET, V_P_GET, V_P_REMOVE, V_P_FREE,
    V_GET_TEXT, V_GET_NUMBER, V_MISC, V_COUNT };
static const char *const VN[] = { "create", "init", "init_char", "copy_char", "parse_numb", "init_numb", "autoinit_numb", "set_quoted", "clean", "free", "clone_new", "clone_onto",
    "list_count", "list_get", "list_set", "list_insert", "list_remove", "table_set", "table_get", "table_remove", "table_keys", "packet_create", "packet_names", "packet_set", "packet_get", "packet_remove", "packet_free",
    "get_text", "get_number", "misc" };
struct VOpRec { VOp k; uint64_t seed; bool off = false, simple = false; };
struct Root { cif_value_tp *v; MValue m; };
struct PkItem { ustr orig, norm; MValue m; };
struct Pk { cif_packet_tp *p; std::vector<PkItem> items; };
struct Target { cif_value_tp *v; MValue *m; bool is_root; int root; };

static bool valid_number(const ustr &t) { return valid_cif_number(t); }

struct VRun {
    RunSpec spec; std::string prop; bool leak_check = true;
    std::vector<VOpRec> ops; std::vector<Root> roots; std::vector<Pk> pks; FaultEnum fe; GenCfg g; int cur = -1;
    [[noreturn]] void violate(const std::string &clause, const std::string &sig, const std::string &d) { throw Violation(prop + "." + clause, sig, d, cur); }
    void expect(const char *fn, int rc, std::initializer_list<int> ok) { ev("%s -> %s", fn, rc_name(rc)); for (int x : ok) if (x == rc) return; std::string e; for (int x : ok) { if (!e.empty()) e += "|"; e += rc_name(x); } violate("rc", strprintf("%s:%s!=%s", fn, rc_name(rc), e.c_str()), strprintf("%s returned %s, the contract prescribes %s", fn, rc_name(rc), e.c_str())); }
    void cover(int k, int rc, uint64_t cls) { g_stats.cover(hmix(hmix(hstr("v"), (uint64_t) k), hmix((uint64_t) (rc + 3), cls))); }
    // pick a target: a root, or (sometimes) a member reached by reference
    bool pick_target(Rng &r, Target &t, bool allow_member = true) {
        if (roots.empty()) return false;
        int ri = (int) r.below(roots.size());
        t.v = roots[(size_t) ri].v; t.m = &roots[(size_t) ri].m; t.is_root = true; t.root = ri;
        for (int depth = 0; allow_member && depth < 3 && r.chance(1, 3); ++depth) {
            if (t.m->kind == CIF_LIST_KIND && !t.m->elems.empty()) {
                size_t i = (size_t) r.below(t.m->elems.size()); cif_value_tp *e = NULL;
                int rc = cif_value_get_element_at(t.v, i, &e); if (rc != CIF_OK || !e) violate("rc", "get_element_at", strprintf("cif_value_get_element_at(%zu of %zu) -> %s", i, t.m->elems.size(), rc_name(rc)));
                t.v = e; t.m = &t.m->elems[i]; t.is_root = false;
            } else if (t.m->kind == CIF_TABLE_KIND && !t.m->entries.empty()) {
                size_t i = (size_t) r.below(t.m->entries.size()); cif_value_tp *e = NULL;
                int rc = cif_value_get_item_by_key(t.v, UC(t.m->entries[i].first), &e); if (rc != CIF_OK || !e) violate("rc", "get_item_by_key", strprintf("cif_value_get_item_by_key on an existing key -> %s", rc_name(rc)));
                t.v = e; t.m = &t.m->entries[i].second; t.is_root = false;
            } else break;
        }
        return true;
    }
    void check_all(const char *when) {
        for (size_t i = 0; i < roots.size(); ++i) {
            MValue s; try { s = snapshot_value(roots[i].v); } catch (Violation &v) { violate("structure", "snapshot:" + v.sig, strprintf("value #%zu cannot be read %s: %s", i, when, v.detail.c_str())); }
            std::string a = canon(roots[i].m), b = canon(s);
            // numbers initialised from doubles carry library-formatted text: the model holds the snapshot taken at that time
            if (a != b) violate("structure", VN[ops[(size_t) cur].k], strprintf("value #%zu differs from the model %s (op %s): %s", i, when, VN[ops[(size_t) cur].k], first_diff(a, b).c_str()));
        }
        for (size_t i = 0; i < pks.size(); ++i) {
            const UChar **names = NULL; int rc = cif_packet_get_names(pks[i].p, &names);
            if (rc != CIF_OK || !names) violate("structure", "packet_names", strprintf("cif_packet_get_names -> %s", rc_name(rc)));
            std::vector<ustr> got; for (const UChar **n = names; *n; ++n) got.push_back(from_uchar(*n)); lib_free(names);
            std::vector<ustr> want; for (auto &it : pks[i].items) want.push_back(it.orig);
            if (got != want) violate("structure", "packet_names", strprintf("packet #%zu enumerates %zu names, the model holds %zu (or order / spelling differs) %s", i, got.size(), want.size(), when));
            for (auto &it : pks[i].items) { cif_value_tp *v = NULL; rc = cif_packet_get_item(pks[i].p, UC(it.orig), &v); if (rc != CIF_OK || !v) violate("structure", "packet_item", strprintf("cif_packet_get_item -> %s for an enumerated name", rc_name(rc))); if (canon(snapshot_value(v)) != canon(it.m)) violate("structure", "packet_value", strprintf("a value of packet #%zu differs from the model %s", i, when)); }
        }
    }
    // pointers into the model (the op's target) must survive a resync: same-shaped nodes are updated in place
    static void assign_in_place(MValue &d, const MValue &s) {
        if (d.kind == s.kind && d.elems.size() == s.elems.size() && d.entries.size() == s.entries.size()) {
            d.text = s.text; d.quoted = s.quoted; d.has_num = s.has_num; d.number = s.number; d.su = s.su;
            for (size_t i = 0; i < d.elems.size(); ++i) assign_in_place(d.elems[i], s.elems[i]);
            for (size_t i = 0; i < d.entries.size(); ++i) { d.entries[i].first = s.entries[i].first; assign_in_place(d.entries[i].second, s.entries[i].second); }
        } else d = s;
    }
    void resync(int root) { try { assign_in_place(roots[(size_t) root].m, snapshot_value(roots[(size_t) root].v)); } catch (Violation &v) { violate("args_valid", v.sig, "after a failed allocation a value is no longer readable: " + v.detail); } }
    MValue make_spec(Rng &r, bool simple) { return simple ? simple_value(r.next()) : gen_value(r, g); }
    cif_value_tp *build(const MValue &s) { int rc = CIF_OK; bool en = fe.enabled; fe.enabled = false; cif_value_tp *v = build_value(s, &rc); fe.enabled = en; if (!v) violate("rc", strprintf("build:%s", rc_name(rc)), strprintf("could not build %s: %s", show(s).c_str(), rc_name(rc))); return v; }
    void exec(const VOpRec &o);
    RunResult run();
};

void VRun::exec(const VOpRec &o) {
    Rng r(o.seed);
    ev("op %d %s", cur, VN[o.k]);
    Target t;
    switch (o.k) {
        case V_CREATE: {
            if (roots.size() >= 8) return;
            int kind = r.chance(1, 12) ? 7 : (int) r.below(6);
            cif_value_tp *v = NULL;
            int rc = fe.call("cif_value_create", [&]() { v = NULL; return cif_value_create((cif_kind_tp) kind, &v); });
            cover(o.k, rc, (uint64_t) kind);
            if (kind > 5) { expect("cif_value_create", rc, {CIF_ARGUMENT_ERROR}); if (v) violate("rc", "create:value_on_failure", "a value was stored although creation failed"); return; }
            expect("cif_value_create", rc, {CIF_OK});
            Root rt; rt.v = v; rt.m = snapshot_value(v);
            MValue want; want.kind = kind; if (kind == CIF_CHAR_KIND) want.quoted = true;
            if (kind == CIF_NUMB_KIND) { if (rt.m.kind != CIF_NUMB_KIND || rt.m.number != 0.0) { cif_value_free(v); violate("structure", "create_numb", "a new NUMB value is not an exact zero"); } }
            else if (canon(want) != canon(rt.m)) { cif_value_free(v); violate("structure", "create_default", strprintf("a new value of kind %d is %s, not the documented default", kind, show(rt.m).c_str())); }
            roots.push_back(rt); return;
        }
        case V_INIT: {
            if (!pick_target(r, t)) return;
            int kind = r.chance(1, 12) ? 9 : (int) r.below(6);
            int rc = fe.call("cif_value_init", [&]() { return cif_value_init(t.v, (cif_kind_tp) kind); });
            cover(o.k, rc, (uint64_t) kind * 8 + (uint64_t) t.m->kind);
            if (kind > 5) { expect("cif_value_init", rc, {CIF_ARGUMENT_ERROR}); resync(t.root); return; }
            expect("cif_value_init", rc, {CIF_OK});
            if (kind == CIF_NUMB_KIND) { *t.m = snapshot_value(t.v); if (t.m->kind != CIF_NUMB_KIND) violate("structure", "init_numb_kind", "cif_value_init(NUMB) did not produce a number"); }
            else { MValue w; w.kind = kind; if (kind == CIF_CHAR_KIND) w.quoted = true; *t.m = w; }
            return;
        }
        case V_INIT_CHAR: case V_COPY_CHAR: {
            if (!pick_target(r, t)) return;
            bool null_text = r.chance(1, 15);
            ustr s = o.simple ? U("s") : gen_string(r, g);
            UChar *owned = NULL; int rc;
            if (o.k == V_INIT_CHAR) {
                rc = fe.call("cif_value_init_char", [&]() { if (!null_text && !owned) owned = lib_ustrdup(s); return cif_value_init_char(t.v, null_text ? NULL : owned); });
                if (rc != CIF_OK && owned) lib_free(owned);       // ownership passes on success only
            } else rc = fe.call("cif_value_copy_char", [&]() { return cif_value_copy_char(t.v, null_text ? NULL : UC(s)); });
            cover(o.k, rc, (uint64_t) t.m->kind);
            if (null_text) { expect(VN[o.k], rc, {CIF_ARGUMENT_ERROR}); return; }
            expect(VN[o.k], rc, {CIF_OK});
            *t.m = MValue::chr(s, true); return;
        }
        case V_PARSE_NUMB: {
            if (!pick_target(r, t)) return;
            static const char *const BAD[] = { "abc", "1e", "1(", "1()", "--1", "", "1.2.3", "1 ", "(1)", "e5", ".", "+", "1e+", "1(2", "0x10", "1,5" };
            ustr s = r.chance(1, 3) ? U(BAD[r.below(sizeof BAD / sizeof BAD[0])]) : gen_number_text(r);
            bool ok = valid_number(s);
            UChar *owned = lib_ustrdup(s);
            int rc = fe.call("cif_value_parse_numb", [&]() { return cif_value_parse_numb(t.v, owned); });
            if (rc != CIF_OK) lib_free(owned);
            cover(o.k, rc, (uint64_t) t.m->kind * 2 + (ok ? 1 : 0));
            expect("cif_value_parse_numb", rc, {ok ? CIF_OK : CIF_INVALID_NUMBER});
            if (rc == CIF_OK) { MValue s2 = snapshot_value(t.v); if (s2.kind != CIF_NUMB_KIND || s2.text != s || s2.quoted) violate("structure", "parse_numb", "parse_numb did not produce an unquoted number carrying the given text"); *t.m = s2; }
            return;
        }
        case V_INIT_NUMB: case V_AUTOINIT: {
            if (!pick_target(r, t)) return;
            static const double VALS[] = { 0.0, 1.0, -1.5, 12.345, 1e-7, 123456.789, 6.02214076e23, -0.001, 299792458.0 };
            double val = VALS[r.below(sizeof VALS / sizeof VALS[0])], su = r.chance(1, 2) ? 0.0 : (r.chance(1, 8) ? -1.0 : val * 0.01 + 0.003);
            if (su < 0 && val == 0) su = -1.0;
            // a quarter of the calls use the extremes of the double range and wide scales (digit-buffer arithmetic: carries, padding,
            // subnormals); there only memory safety, the result-code class and the validity of the value afterwards are judged
            bool extreme = !o.simple && r.chance(1, 4);
            if (extreme) {
                static const double EXT[] = { 1.7976931348623157e308, -1.7976931348623157e308, 2.2250738585072014e-308, 4.9e-324, -7.0e-320, 9.999999999999999e22, 0.99999999999999989, 99999.999999999985,
                    1e15, 1e16, 123456789012345680000.0, 0.5, 0.05, 5e-7, 9.5, 999.5, 1e-300, 8.98846567431158e307, 4503599627370496.0, 9007199254740993.0, 0.1, 1.0 / 3.0 };
                val = EXT[r.below(sizeof EXT / sizeof EXT[0])];
                // half of them: a random bit pattern instead of a listed constant -- subnormals of every width (the longest fraction-digit
                // strings the conversion has to hold) or any finite exponent with a random mantissa
                if (r.chance(2, 3)) {
                    uint64_t bits;
                    if (r.chance(2, 3)) { unsigned w = (unsigned) r.range(1, 52); bits = (r.next() & ((1ull << w) - 1)) | (1ull << (w - 1)) | (r.chance(3, 4) ? 1ull : 0ull); }
                    else bits = ((uint64_t) r.below(2047) << 52) | (r.next() & ((1ull << 52) - 1));
                    if (r.chance(1, 3)) bits |= 1ull << 63;
                    memcpy(&val, &bits, sizeof val); g_stats.inc("value.extreme_number_random_bits");
                }
                if (su > 0) { static const double ES[] = { 1e-310, 1e300, 0.5, 9.5, 0.095, 1e-20, 99.9, 1.0 }; su = r.chance(1, 2) ? std::fabs(val) * 1e-3 : ES[r.below(8)]; if (!(su > 0)) su = 4.9e-324;
                    if (r.chance(1, 6)) { unsigned w = (unsigned) r.range(1, 52); uint64_t sb = (r.next() & ((1ull << w) - 1)) | (1ull << (w - 1)) | 1ull; memcpy(&su, &sb, sizeof su); } }
            }
            int rc; bool bad_arg = su < 0;
            if (o.k == V_INIT_NUMB) { int scale = extreme ? (int) r.range(-320, 340) : (int) r.range(-3, 6), mlz = r.chance(1, 10) ? -1 : (int) r.range(0, 6); bad_arg = bad_arg || mlz < 0; rc = fe.call("cif_value_init_numb", [&]() { return cif_value_init_numb(t.v, val, su < 0 ? su : (su > 0 ? su : 0.0), scale, mlz); }); }
            else {
                unsigned rule = r.chance(1, 10) ? 1 : (r.chance(1, 2) ? 19 : (unsigned) r.range(2, 99)); bad_arg = bad_arg || rule < 2;
                // a third of the uncertainties sit at the decision boundary of the rule: (rule - 1, rule, rule + 1) x 10^-k
                bool at_boundary = !extreme && su > 0 && rule >= 2 && r.chance(1, 3);
                if (at_boundary) { int k = (int) r.range(-1, 4); su = ((double) rule + (double) r.range(-1, 1)) * std::pow(10.0, -k); g_stats.inc("value.autoinit_su_at_rule_boundary"); }
                rc = fe.call("cif_value_autoinit_numb", [&]() { return cif_value_autoinit_numb(t.v, val, su < 0 ? su : (su > 0 ? su : 0.0), rule); });
                if (rc == CIF_OK && !bad_arg && !extreme && su > 0 && rule >= 6) {
                    // "the largest scale is chosen such that the significant digits of the rounded su, interpreted as an integer, are less than
                    // or equal to the su_rule": D = the digits in parentheses, u = the unit of the last digit kept (recorded su / D)
                    MValue sv = snapshot_value(t.v); size_t a = sv.text.find(u'('), b = sv.text.find(u')');
                    if (a != ustr::npos && b != ustr::npos && b > a + 1 && sv.has_num) {
                        double D = 0; for (size_t i = a + 1; i < b; ++i) D = D * 10 + (double) (sv.text[i] - u'0');
                        if (D > 0 && sv.su > 0) {
                            double u = sv.su / D, here = su / u, finer = su * 10.0 / u;
                            if (D > (double) rule) violate("number", "autoinit_numb:su_digits_exceed_rule", strprintf("cif_value_autoinit_numb(%.17g, %.17g, %u) produced %s: su digits %g exceed the rule", val, su, rule, u8(sv.text).c_str(), D));
                            if (std::fabs(here - D) > 0.5 + 1e-6 * D) violate("number", "autoinit_numb:su_not_rounded", strprintf("cif_value_autoinit_numb(%.17g, %.17g, %u) produced %s: the su digits are not the su rounded to the last digit kept (%.6f)", val, su, rule, u8(sv.text).c_str(), here));
                            if (finer < (double) rule + 0.5 - 1e-6 * (double) rule) violate("number", "autoinit_numb:scale_not_largest", strprintf("cif_value_autoinit_numb(%.17g, %.17g, %u) produced %s although one more digit would still satisfy the rule (su digits would be %.6f <= %u)", val, su, rule, u8(sv.text).c_str(), finer, rule));
                        }
                    }
                }
            }
            cover(o.k, rc, (uint64_t) t.m->kind * 2 + (bad_arg ? 1 : 0));
            if (bad_arg) { expect(VN[o.k], rc, {CIF_ARGUMENT_ERROR}); resync(t.root); return; }
            if (extreme && rc != CIF_OK) { if (!rc_defined(rc)) violate("rc", strprintf("%s:undefined", VN[o.k]), strprintf("%s returned the undefined code %d", VN[o.k], rc)); g_stats.inc("value.extreme_number_refused"); resync(t.root); return; }
            if (extreme) g_stats.inc("value.extreme_number_ok");
            expect(VN[o.k], rc, {CIF_OK});
            MValue s2 = snapshot_value(t.v);
            if (s2.kind != CIF_NUMB_KIND || s2.quoted || !valid_number(s2.text)) violate("structure", VN[o.k], strprintf("%s produced %s, not an unquoted number with numeric text", VN[o.k], show(s2).c_str()));
            *t.m = s2; return;
        }
        case V_SET_QUOTED: {
            if (!pick_target(r, t)) return;
            bool tr = r.chance(1, 2); int q = r.chance(1, 2) ? CIF_QUOTED : CIF_NOT_QUOTED;
            // only clear-cut cases are predicted; anything else is left to C18 (not claimed) and skipped here
            MValue &m = *t.m; int want = -1; MValue after = m;
            if (m.kind == CIF_UNK_KIND) { want = CIF_OK; if (q) after = MValue::chr(U("?"), true); }
            else if (m.kind == CIF_NA_KIND) { want = CIF_OK; if (q) after = MValue::chr(U("."), true); }
            else if (m.kind == CIF_LIST_KIND || m.kind == CIF_TABLE_KIND) want = q ? CIF_ARGUMENT_ERROR : CIF_OK;
            else if (m.kind == CIF_NUMB_KIND) { want = CIF_OK; after.quoted = q != 0; }
            else if (q || !m.quoted) { want = CIF_OK; after.quoted = q != 0; }
            else if (m.text.empty()) want = CIF_ARGUMENT_ERROR;
            else if (m.text == U("?")) { want = CIF_OK; after = MValue::unk(); }
            else if (m.text == U(".")) { want = CIF_OK; after = MValue::na(); }
            else if (bare_ok(m.text)) { want = CIF_OK; after.quoted = false; }
            else if (is_reserved_word(m.text)) want = CIF_ARGUMENT_ERROR;      // data_* save_* loop_ stop_ global_ in any letter case can never be presented unquoted
            else { bool ws = false; for (char16_t c : m.text) if (c == ' ' || c == '\t' || c == '\n' || c == '\r') ws = true; if (ws) want = CIF_ARGUMENT_ERROR; else return; }
            int rc = tr ? cif_value_try_quoted(t.v, (cif_quoted_tp) q) : cif_value_set_quoted(t.v, (cif_quoted_tp) q);
            cover(o.k, rc, (uint64_t) m.kind * 4 + (uint64_t) q * 2 + (tr ? 1 : 0));
            expect(tr ? "cif_value_try_quoted" : "cif_value_set_quoted", rc, {want});
            if (rc == CIF_OK) *t.m = after;
            return;
        }
        case V_CLEAN: { if (!pick_target(r, t)) return; cif_value_clean(t.v); ++g_stats.events; *t.m = MValue::unk(); cover(o.k, 0, 0); return; }
        case V_FREE: { if (roots.size() < 2) return; size_t i = (size_t) r.below(roots.size()); cif_value_free(roots[i].v); ++g_stats.events; roots.erase(roots.begin() + (long) i); cover(o.k, 0, 0); if (r.chance(1, 10)) cif_value_free(NULL); return; }
        case V_CLONE_NEW: {
            if (roots.size() >= 8 || !pick_target(r, t)) return;
            cif_value_tp *c = NULL;
            int rc = fe.call("cif_value_clone", [&]() { c = NULL; return cif_value_clone(t.v, &c); });
            cover(o.k, rc, (uint64_t) t.m->kind);
            expect("cif_value_clone", rc, {CIF_OK});
            if (!c) violate("rc", "clone:null", "cif_value_clone returned CIF_OK without a value");
            Root rt; rt.v = c; rt.m = *t.m; roots.push_back(rt); return;
        }
        case V_CLONE_ONTO: {
            if (roots.size() < 2) return;
            Target s; if (!pick_target(r, s) || !pick_target(r, t, false)) return;
            if (s.root == t.root) return;               // cloning a value onto itself / its own ancestor is not a documented case
            cif_value_tp *c = t.v;
            MValue src = *s.m;
            int rc = fe.call("cif_value_clone", [&]() { c = t.v; return cif_value_clone(s.v, &c); });
            cover(o.k, rc, (uint64_t) s.m->kind * 8 + (uint64_t) t.m->kind);
            expect("cif_value_clone", rc, {CIF_OK});
            if (c != t.v) violate("rc", "clone:replaced_pointer", "cif_value_clone onto an existing value replaced the caller's pointer");
            *t.m = src; return;
        }
        case V_L_COUNT: {
            if (!pick_target(r, t)) return;
            size_t n = 12345; int rc = cif_value_get_element_count(t.v, &n); ++g_stats.events;
            cover(o.k, rc, (uint64_t) t.m->kind);
            bool comp = t.m->kind == CIF_LIST_KIND || t.m->kind == CIF_TABLE_KIND;
            expect("cif_value_get_element_count", rc, {comp ? CIF_OK : CIF_ARGUMENT_ERROR});
            if (comp && n != (t.m->kind == CIF_LIST_KIND ? t.m->elems.size() : t.m->entries.size())) violate("structure", "count", strprintf("element count %zu differs from the model", n));
            return;
        }
        case V_L_GET: case V_L_SET: case V_L_INSERT: case V_L_REMOVE: {
            if (!pick_target(r, t)) return;
            bool is_list = t.m->kind == CIF_LIST_KIND;
            if (!is_list && !r.chance(1, 5)) { // bias towards lists: turn an UNK root into a list now and then
                if (t.m->kind == CIF_UNK_KIND && t.is_root) { int rc0 = cif_value_init(t.v, CIF_LIST_KIND); if (rc0 == CIF_OK) { MValue l; l.kind = CIF_LIST_KIND; *t.m = l; is_list = true; } }
            }
            size_t n = is_list ? t.m->elems.size() : 0;
            size_t idx = r.chance(1, 6) ? n + (size_t) r.below(3) + (o.k == V_L_INSERT ? 1 : 0) : (n ? (size_t) r.below(n + (o.k == V_L_INSERT ? 1 : 0)) : 0);
            bool in_range = is_list && (o.k == V_L_INSERT ? idx <= n : idx < n);
            int want = !is_list ? CIF_ARGUMENT_ERROR : (in_range ? CIF_OK : CIF_INVALID_INDEX);
            if (o.k == V_L_GET) {
                cif_value_tp *e = NULL; int rc = cif_value_get_element_at(t.v, idx, &e); ++g_stats.events;
                cover(o.k, rc, (uint64_t) t.m->kind); expect("cif_value_get_element_at", rc, {want});
                if (rc == CIF_OK && canon(snapshot_value(e)) != canon(t.m->elems[idx])) violate("structure", "get_element_at", "the element exposed by reference differs from the model");
                return;
            }
            if (o.k == V_L_REMOVE) {
                bool ret = r.chance(1, 2) && roots.size() < 8; cif_value_tp *e = NULL;
                int rc = cif_value_remove_element_at(t.v, idx, ret ? &e : NULL); ++g_stats.events;
                cover(o.k, rc, (uint64_t) t.m->kind * 2 + (ret ? 1 : 0)); expect("cif_value_remove_element_at", rc, {want});
                if (rc == CIF_OK) { MValue gone = t.m->elems[idx]; t.m->elems.erase(t.m->elems.begin() + (long) idx); if (ret) { if (!e) violate("rc", "remove:null", "no element handed back"); Root rt; rt.v = e; rt.m = gone; roots.push_back(rt); } }
                return;
            }
            // set / insert: the new element is NULL, another value, the element already there (documented no-op), or the list itself (insert only)
            unsigned src = (unsigned) r.below(10); cif_value_tp *ev_ = NULL; MValue em = MValue::unk(); cif_value_tp *tmp = NULL; bool same = false;
            if (src < 2) { }
            else if (src < 3 && o.k == V_L_SET && in_range) { int rc0 = cif_value_get_element_at(t.v, idx, &ev_); if (rc0 != CIF_OK) ev_ = NULL; em = t.m->elems[idx]; same = true; }
            else if (src < 4 && o.k == V_L_INSERT && is_list && t.m->nodes() < 200) { ev_ = t.v; em = *t.m; }
            else { MValue sp = make_spec(r, o.simple); tmp = build(sp); ev_ = tmp; em = snapshot_value(tmp); }
            int rc = fe.call(o.k == V_L_SET ? "cif_value_set_element_at" : "cif_value_insert_element_at", [&]() { return o.k == V_L_SET ? cif_value_set_element_at(t.v, idx, ev_) : cif_value_insert_element_at(t.v, idx, ev_); });
            cover(o.k, rc, (uint64_t) t.m->kind * 16 + src);
            std::unique_ptr<Violation> bad;
            try { expect(o.k == V_L_SET ? "cif_value_set_element_at" : "cif_value_insert_element_at", rc, {want}); if (tmp && canon(snapshot_value(tmp)) != canon(em)) violate("independent", VN[o.k], "the caller's value changed when it was put into a list"); } catch (Violation &v) { bad.reset(new Violation(v)); }
            if (tmp) cif_value_free(tmp);
            if (bad) throw *bad;
            if (rc == CIF_OK) { if (o.k == V_L_SET) { if (!same) t.m->elems[idx] = em; } else t.m->elems.insert(t.m->elems.begin() + (long) idx, em); }
            return;
        }
        case V_T_SET: case V_T_GET: case V_T_REMOVE: case V_T_KEYS: {
            if (!pick_target(r, t)) return;
            bool is_table = t.m->kind == CIF_TABLE_KIND;
            if (!is_table && !r.chance(1, 5) && t.m->kind == CIF_UNK_KIND && t.is_root) { int rc0 = cif_value_init(t.v, CIF_TABLE_KIND); if (rc0 == CIF_OK) { MValue tb; tb.kind = CIF_TABLE_KIND; *t.m = tb; is_table = true; } }
            if (o.k == V_T_KEYS) {
                const UChar **keys = NULL; int rc = fe.call("cif_value_get_keys", [&]() { keys = NULL; return cif_value_get_keys(t.v, &keys); });
                cover(o.k, rc, (uint64_t) t.m->kind); expect("cif_value_get_keys", rc, {is_table ? CIF_OK : CIF_ARGUMENT_ERROR});
                if (rc == CIF_OK) { std::multiset<ustr> got, want; for (const UChar **k = keys; *k; ++k) got.insert(from_uchar(*k)); lib_free(keys); for (auto &e : t.m->entries) want.insert(e.first); if (got != want) violate("structure", "get_keys", "enumerated keys (spelling most recently used) differ from the model"); }
                return;
            }
            ustr key; bool invalid_key = false;
            unsigned ks = (unsigned) r.below(10);
            if (ks < 1) { key = U("bad"); key += (char16_t) (r.chance(1, 2) ? 0x01 : 0xfffe); invalid_key = true; }
            else if (ks < 7 || o.simple) { const NameClass &nc = key_pool()[r.below(o.simple ? 2 : key_pool().size())]; key = nc.variants[r.below(nc.variants.size())]; }
            else if (is_table && !t.m->entries.empty()) key = t.m->entries[r.below(t.m->entries.size())].first;
            else key = U("k9");
            MValue *existing = is_table && !invalid_key ? t.m->find_key(key) : NULL;
            if (o.k == V_T_GET) {
                cif_value_tp *e = NULL; int rc = fe.call("cif_value_get_item_by_key", [&]() { e = NULL; return cif_value_get_item_by_key(t.v, UC(key), r.chance(1, 5) ? NULL : &e); });
                cover(o.k, rc, (uint64_t) t.m->kind * 2 + (existing ? 1 : 0));
                expect("cif_value_get_item_by_key", rc, {!is_table ? CIF_ARGUMENT_ERROR : (existing ? CIF_OK : CIF_NOSUCH_ITEM)});
                if (rc == CIF_OK && e && canon(snapshot_value(e)) != canon(*existing)) violate("structure", "get_item_by_key", "the entry exposed by reference differs from the model");
                return;
            }
            if (o.k == V_T_REMOVE) {
                bool ret = r.chance(1, 2) && roots.size() < 8; cif_value_tp *e = NULL;
                int rc = fe.call("cif_value_remove_item_by_key", [&]() { e = NULL; return cif_value_remove_item_by_key(t.v, UC(key), ret ? &e : NULL); });
                cover(o.k, rc, (uint64_t) t.m->kind * 4 + (existing ? 2 : 0) + (ret ? 1 : 0));
                expect("cif_value_remove_item_by_key", rc, {!is_table ? CIF_ARGUMENT_ERROR : (existing ? CIF_OK : CIF_NOSUCH_ITEM)});
                if (rc == CIF_OK) { MValue gone = *existing; ustr nk = mnfc(key); for (size_t i = 0; i < t.m->entries.size(); ++i) if (mnfc(t.m->entries[i].first) == nk) { t.m->entries.erase(t.m->entries.begin() + (long) i); break; } if (ret) { if (!e) violate("rc", "remove:null", "no entry value handed back"); Root rt; rt.v = e; rt.m = gone; roots.push_back(rt); } }
                return;
            }
            unsigned src = (unsigned) r.below(10); cif_value_tp *ev_ = NULL; MValue em = MValue::unk(); cif_value_tp *tmp = NULL; bool same = false;
            if (src < 2) { }
            else if (src < 3 && existing) { int rc0 = cif_value_get_item_by_key(t.v, UC(key), &ev_); if (rc0 != CIF_OK) ev_ = NULL; em = *existing; same = true; }
            else if (src < 4 && is_table && !existing && t.m->nodes() < 200) { ev_ = t.v; em = *t.m; }
            else { MValue sp = make_spec(r, o.simple); tmp = build(sp); ev_ = tmp; em = snapshot_value(tmp); }
            int rc = fe.call("cif_value_set_item_by_key", [&]() { return cif_value_set_item_by_key(t.v, UC(key), ev_); });
            cover(o.k, rc, (uint64_t) t.m->kind * 16 + src);
            std::unique_ptr<Violation> bad;
            try { expect("cif_value_set_item_by_key", rc, {!is_table ? CIF_ARGUMENT_ERROR : (invalid_key ? CIF_INVALID_INDEX : CIF_OK)}); if (tmp && canon(snapshot_value(tmp)) != canon(em)) violate("independent", VN[o.k], "the caller's value changed when it was put into a table"); } catch (Violation &v) { bad.reset(new Violation(v)); }
            if (tmp) cif_value_free(tmp);
            if (bad) throw *bad;
            if (rc == CIF_OK) { if (existing) { ustr nk = mnfc(key); for (auto &e : t.m->entries) if (mnfc(e.first) == nk) { e.first = key; if (!same) e.second = em; } } else t.m->entries.push_back({key, em}); }
            return;
        }
        case V_P_CREATE: {
            if (pks.size() >= 4) return;
            std::vector<ustr> names; std::set<ustr> seen; bool invalid = false; int n = r.chance(1, 8) ? 0 : (int) r.range(1, 4);
            for (int i = 0; i < n; ++i) { if (r.chance(1, 12)) { names.push_back(invalid_items()[r.below(invalid_items().size())]); invalid = true; continue; } const NameClass &nc = item_pool()[r.below(o.simple ? 3 : item_pool().size())]; ustr nm = nc.variants[r.below(nc.variants.size())]; if (seen.insert(mnorm(nm)).second) names.push_back(nm); }
            std::vector<UChar *> arr; for (auto &s : names) arr.push_back((UChar *) UC(s)); arr.push_back(NULL);
            bool null_names = names.empty() && r.chance(1, 2);
            cif_packet_tp *p = NULL;
            int rc = fe.call("cif_packet_create", [&]() { p = NULL; return cif_packet_create(&p, null_names ? NULL : arr.data()); });
            cover(o.k, rc, (uint64_t) names.size() * 2 + (invalid ? 1 : 0));
            expect("cif_packet_create", rc, {invalid ? CIF_INVALID_ITEMNAME : CIF_OK});
            if (rc != CIF_OK) { if (p) violate("rc", "packet_create:packet_on_failure", "a packet was stored although creation failed"); return; }
            Pk pk; pk.p = p; for (auto &s : names) pk.items.push_back({s, mnorm(s), MValue::unk()}); pks.push_back(pk); return;
        }
        case V_P_NAMES: case V_P_GET: case V_P_SET: case V_P_REMOVE: case V_P_FREE: {
            if (pks.empty()) return;
            size_t pi = (size_t) r.below(pks.size()); Pk &pk = pks[pi];
            if (o.k == V_P_FREE) { cif_packet_free(pk.p); ++g_stats.events; pks.erase(pks.begin() + (long) pi); if (r.chance(1, 10)) cif_packet_free(NULL); cover(o.k, 0, 0); return; }
            if (o.k == V_P_NAMES) { check_all("at packet_names"); cover(o.k, 0, pk.items.size()); return; }
            bool invalid = r.chance(1, 12); ustr nm;
            if (invalid) nm = invalid_items()[r.below(invalid_items().size())]; else { const NameClass &nc = item_pool()[r.below(o.simple ? 3 : item_pool().size())]; nm = nc.variants[r.below(nc.variants.size())]; }
            ustr nn = invalid ? ustr() : mnorm(nm); int at = -1; if (!invalid) for (size_t i = 0; i < pk.items.size(); ++i) if (pk.items[i].norm == nn) at = (int) i;
            if (o.k == V_P_GET) {
                cif_value_tp *e = NULL; int rc = fe.call("cif_packet_get_item", [&]() { e = NULL; return cif_packet_get_item(pk.p, UC(nm), &e); });
                cover(o.k, rc, at >= 0 ? 1 : 0); expect("cif_packet_get_item", rc, {at >= 0 ? CIF_OK : CIF_NOSUCH_ITEM});
                if (rc == CIF_OK && canon(snapshot_value(e)) != canon(pk.items[(size_t) at].m)) violate("structure", "packet_get_item", "the packet item exposed by reference differs from the model");
                return;
            }
            if (o.k == V_P_REMOVE) {
                bool ret = r.chance(1, 2) && roots.size() < 8; cif_value_tp *e = NULL;
                int rc = fe.call("cif_packet_remove_item", [&]() { e = NULL; return cif_packet_remove_item(pk.p, UC(nm), ret ? &e : NULL); });
                cover(o.k, rc, (at >= 0 ? 2 : 0) + (ret ? 1 : 0)); expect("cif_packet_remove_item", rc, {at >= 0 ? CIF_OK : CIF_NOSUCH_ITEM});
                if (rc == CIF_OK) { MValue gone = pk.items[(size_t) at].m; pk.items.erase(pk.items.begin() + at); if (ret) { if (!e) violate("rc", "remove:null", "no item value handed back"); Root rt; rt.v = e; rt.m = gone; roots.push_back(rt); } }
                return;
            }
            unsigned src = (unsigned) r.below(10); cif_value_tp *ev_ = NULL; MValue em = MValue::unk(); cif_value_tp *tmp = NULL; bool same = false;
            if (src < 2) { }
            else if (src < 3 && at >= 0) { int rc0 = cif_packet_get_item(pk.p, UC(nm), &ev_); if (rc0 != CIF_OK) ev_ = NULL; em = pk.items[(size_t) at].m; same = true; }
            else { MValue sp = make_spec(r, o.simple); tmp = build(sp); ev_ = tmp; em = snapshot_value(tmp); }
            int rc = fe.call("cif_packet_set_item", [&]() { return cif_packet_set_item(pk.p, UC(nm), ev_); });
            cover(o.k, rc, (uint64_t) src * 2 + (at >= 0 ? 1 : 0));
            std::unique_ptr<Violation> bad;
            try { expect("cif_packet_set_item", rc, {invalid ? CIF_INVALID_ITEMNAME : CIF_OK}); } catch (Violation &v) { bad.reset(new Violation(v)); }
            if (tmp) cif_value_free(tmp);
            if (bad) throw *bad;
            if (rc == CIF_OK) { if (at >= 0) { pk.items[(size_t) at].orig = nm; if (!same) pk.items[(size_t) at].m = em; } else pk.items.push_back({nm, nn, em}); }
            return;
        }
        case V_GET_TEXT: {
            if (!pick_target(r, t)) return;
            UChar *tx = (UChar *) 1; int rc = fe.call("cif_value_get_text", [&]() { tx = (UChar *) 1; return cif_value_get_text(t.v, &tx); });
            cover(o.k, rc, (uint64_t) t.m->kind); expect("cif_value_get_text", rc, {CIF_OK});
            bool has = t.m->kind == CIF_CHAR_KIND || t.m->kind == CIF_NUMB_KIND;
            if (has != (tx != NULL) || tx == (UChar *) 1) violate("structure", "get_text", "cif_value_get_text provides text exactly for CHAR and NUMB values");
            if (tx && from_uchar(tx) != t.m->text) { lib_free(tx); violate("structure", "get_text_value", "text differs from the model"); }
            if (tx) lib_free(tx);
            return;
        }
        case V_GET_NUMBER: {
            if (!pick_target(r, t)) return;
            double d = 0; bool su = r.chance(1, 2);
            int rc = fe.call(su ? "cif_value_get_su" : "cif_value_get_number", [&]() { return su ? cif_value_get_su(t.v, &d) : cif_value_get_number(t.v, &d); });
            cover(o.k, rc, (uint64_t) t.m->kind);
            if (t.m->kind == CIF_NUMB_KIND) expect("cif_value_get_number", rc, {CIF_OK});
            else if (t.m->kind == CIF_CHAR_KIND) { bool ok = valid_number(t.m->text); expect("cif_value_get_number", rc, {ok ? CIF_OK : CIF_INVALID_NUMBER}); if (rc == CIF_OK) { MValue s2 = snapshot_value(t.v); if (s2.kind != CIF_NUMB_KIND || s2.text != t.m->text || s2.quoted != t.m->quoted) violate("structure", "coerce", "a numeric-looking string was not coerced to a number with the same text and quoting"); *t.m = s2; } }
            else expect("cif_value_get_number", rc, {CIF_ARGUMENT_ERROR});
            return;
        }
        case V_MISC: {
            // the two remaining allocating utility functions of the public API
            if (r.chance(1, 2)) {
                char *ver = NULL;
                int rc = fe.call("cif_get_api_version", [&]() { if (ver) { lib_free(ver); ver = NULL; } return cif_get_api_version(&ver); });
                cover(o.k, rc, 0); expect("cif_get_api_version", rc, {CIF_OK});
                if (!ver || !*ver) violate("structure", "api_version", "cif_get_api_version returned no version string");
                lib_free(ver);
                if (r.chance(1, 4)) { int q = cif_get_api_version(NULL); if (q != CIF_ARGUMENT_ERROR) violate("rc", "api_version_null", strprintf("cif_get_api_version(NULL) -> %s", rc_name(q))); }
            } else {
                static const char *const CS[] = { "", "a", "_atom_site.label", "plain ASCII text with blanks", "1.234(5)e-7" };
                const char *cs = CS[r.below(5)]; bool null_src = r.chance(1, 6); int32_t len = r.chance(1, 2) ? -1 : (int32_t) r.below(strlen(cs) + 1);
                UChar *us = (UChar *) 1; bool touched = false;
                int rc = fe.call("cif_cstr_to_ustr", [&]() { if (touched && us) lib_free(us); us = NULL; touched = true; return cif_cstr_to_ustr(null_src ? NULL : cs, len, &us); });
                cover(o.k, rc, null_src ? 1 : 0); expect("cif_cstr_to_ustr", rc, {CIF_OK});
                if (null_src) { if (us != NULL) violate("structure", "cstr_null", "cif_cstr_to_ustr(NULL) produced a string"); }
                else {
                    if (!us) violate("structure", "cstr_result", "cif_cstr_to_ustr returned CIF_OK without a string");
                    size_t n = len < 0 ? strlen(cs) : (size_t) len; ustr want; for (size_t i = 0; i < n; ++i) want += (char16_t) (unsigned char) cs[i];
                    if (from_uchar(us) != want) { lib_free(us); violate("structure", "cstr_text", "cif_cstr_to_ustr did not reproduce an ASCII string"); }
                    lib_free(us);
                }
            }
            return;
        }
        default: return;
    }
}

RunResult VRun::run() {
    RunResult res;
    Rng r(hmix(run_seed_of(spec), hstr("workload")));
    int n = (int) r.range(8, 40); if (r.chance(1, 10)) n = (int) r.range(2, 6);
    g.max_depth = (int) r.range(0, 3); g.max_members = (int) r.range(1, 5); g.allow_long = r.chance(1, 6);
    std::vector<unsigned> w(V_COUNT, 4);
    w[V_CREATE] = 10; w[V_L_INSERT] = 10; w[V_T_SET] = 10; w[V_L_SET] = 6; w[V_CLONE_NEW] = 6; w[V_CLONE_ONTO] = 6; w[V_P_CREATE] = 4; w[V_P_SET] = 8; w[V_FREE] = 3; w[V_CLEAN] = 2;
    for (auto &x : w) if (r.chance(1, 8)) x = 0;
    w[V_CREATE] = std::max(w[V_CREATE], 6u);
    { VOpRec o; o.k = V_CREATE; o.seed = r.next(); ops.push_back(o); }
    for (int i = 0; i < n; ++i) { VOpRec o; o.k = (VOp) r.weighted(w); o.seed = r.next(); ops.push_back(o); }
    if (spec.mods.max_ops >= 0 && (size_t) spec.mods.max_ops < ops.size()) ops.resize((size_t) spec.mods.max_ops);
    for (size_t i = 0; i < ops.size(); ++i) { if (spec.mods.off.count((int) i)) ops[i].off = true; if (spec.mods.simple.count((int) i)) ops[i].simple = true; }
    res.n_ops = (int) ops.size(); g_plan_n_ops = res.n_ops; g_plan_fault_ops.clear(); plan_ready();
    ev("run %s values: %zu ops", prop.c_str(), ops.size());
    long live0 = g_lalloc.live_blocks();
    fe.after_failed = [&](const char *, long) { for (size_t i = 0; i < roots.size(); ++i) resync((int) i); for (auto &pk : pks) for (auto &it : pk.items) { cif_value_tp *v = NULL; if (cif_packet_get_item(pk.p, UC(it.orig), &v) == CIF_OK && v) assign_in_place(it.m, snapshot_value(v)); } };
    try {
        std::string loc0 = EnvSeam::cur_locale(); int rnd0 = EnvSeam::cur_rounding();
        for (size_t i = 0; i < ops.size(); ++i) {
            if (ops[i].off) continue;
            cur = (int) i; exec(ops[i]); check_all("after the op");
            if (EnvSeam::cur_locale() != loc0) violate("locale", VN[ops[i].k], strprintf("value operation %s changed LC_NUMERIC from \"%s\" to \"%s\"", VN[ops[i].k], loc0.c_str(), EnvSeam::cur_locale().c_str()));
            if (EnvSeam::cur_rounding() != rnd0) violate("rounding", VN[ops[i].k], strprintf("value operation %s changed the floating-point rounding mode", VN[ops[i].k]));
        }
    } catch (Violation &) { g_lalloc.disarm(); g_salloc.disarm(); throw; }
    cur = -1;
    for (auto &rt : roots) cif_value_free(rt.v);
    for (auto &pk : pks) cif_packet_free(pk.p);
    roots.clear(); pks.clear();
    long l1 = g_lalloc.live_blocks();
    if (leak_check && l1 != live0) { std::string sites = g_lalloc.describe_live(3); throw Violation(prop + (prop == "C19" ? ".release" : ".leak"), sites, strprintf("%ld block(s) still allocated after every value and packet was released; allocation site(s): %s", l1 - live0, sites.c_str()), -1); }
    return res;
}
RunResult eng_value_run_cfg(const RunSpec &spec, const std::string &prop, bool enumerate, bool hostile_env) {
    VRun v; v.spec = spec; v.prop = prop; v.fe.enabled = enumerate; v.fe.quick = spec.tier != "thorough"; v.fe.prop = prop; v.fe.seed = run_seed_of(spec);
    if (hostile_env) { Rng er(hmix(run_seed_of(spec), hstr("env"))); g_env.locale = (int) er.below(3); g_env.rounding = (int) er.below(4); if (spec.mods.default_env) g_env = EnvSeam(); g_env.apply(); }
    std::string loc0 = EnvSeam::cur_locale(); int rnd0 = EnvSeam::cur_rounding();
    RunResult r = v.run();
    if (EnvSeam::cur_locale() != loc0) throw Violation(prop + ".locale", "value_ops", strprintf("LC_NUMERIC changed from \"%s\" to \"%s\" during value operations", loc0.c_str(), EnvSeam::cur_locale().c_str()), -1);
    if (EnvSeam::cur_rounding() != rnd0) throw Violation(prop + ".rounding", "value_ops", "the floating-point rounding mode was changed by value operations", -1);
    return r;
}
RunResult eng_value_run(const RunSpec &spec) { return eng_value_run_cfg(spec, spec.prop, false, false); }
