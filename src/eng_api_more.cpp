// eng_api_more.cpp -- api engine, continued: walk read-back, write/re-parse checkpoints (C02, C13), planted failing
// calls (C05), per-property configurations and the engine entry point.
#include "apieng.hpp"
#include "docgen.hpp"
#include <sqlite3.h>
extern "C" {
#include "internal/ciftypes.h"
}
#define CALL(fnname, expr) api(fnname, [&]() { return (expr); })
#define CALLN(fnname, expr) api(fnname, [&]() { return (expr); }, A_NOENUM)
#define SKIP(why) do { ev("skip %s: %s", opk_name(o.k), why); g_stats.inc(std::string("op.skipped.") + opk_name(o.k)); return; } while (0)

// ------------------------------------------------------------------------------------------------ helpers
static bool path_to(MCont &c, uint64_t uid, std::vector<MCont *> &path) {
    path.push_back(&c);
    if (c.uid == uid) return true;
    for (auto &f : c.frames) if (path_to(f, uid, path)) return true;
    path.pop_back();
    return false;
}
// obtains a temporary handle on the container 'uid' by looking it up from the top (block code, then frame codes)
int ApiRun::temp_handle(int ci, uint64_t uid, cif_container_tp **out) {
    RCif &c = cifs[(size_t) ci];
    std::vector<MCont *> path;
    for (auto &b : c.model.blocks) { path.clear(); if (path_to(b, uid, path)) break; }
    if (path.empty()) return CIF_ERROR;
    cif_container_tp *h = NULL;
    int rc = cif_get_block(c.cif, UC(path[0]->code_orig), &h);
    for (size_t i = 1; rc == CIF_OK && i < path.size(); ++i) { cif_container_tp *n = NULL; rc = cif_container_get_frame(h, UC(path[i]->code_orig), &n); cif_container_free(h); h = n; }
    if (rc == CIF_OK) *out = h;
    return rc;
}
void ApiRun::prune_all(int ci) {
    RCif &c = cifs[(size_t) ci];
    std::vector<uint64_t> todo;
    std::function<void(MCont &)> rec = [&](MCont &m) { for (auto &l : m.loops) if (l.packets.empty()) { todo.push_back(m.uid); break; } for (auto &f : m.frames) rec(f); };
    for (auto &b : c.model.blocks) rec(b);
    for (uint64_t uid : todo) {
        cif_container_tp *h = NULL;
        int rc = temp_handle(ci, uid, &h);
        if (rc != CIF_OK) violate("rc", strprintf("lookup:%s", rc_name(rc)), strprintf("could not look up an existing container by its codes: %s", rc_name(rc)));
        rc = CALLN("cif_container_prune", cif_container_prune(h));
        cif_container_free(h);
        expect_rc("cif_container_prune", rc, {CIF_OK});
        MCont *m = find_cont(c.model, uid);
        for (size_t i = 0; i < m->loops.size();) { if (m->loops[i].packets.empty()) m->loops.erase(m->loops.begin() + (long) i); else ++i; }
    }
}
std::vector<NameRef> ApiRun::fresh_names(MCont *m, size_t n, uint64_t seed) {
    std::vector<NameRef> out; Rng r(seed);
    size_t start = (size_t) r.below(item_pool().size());
    for (size_t t = 0; t < item_pool().size() && out.size() < n; ++t) {
        size_t cls = (start + t) % item_pool().size();
        if (m && m->loop_of(mnorm(item_pool()[cls].variants[0]))) continue;
        NameRef nr; nr.cls = (int) cls; nr.variant = (int) r.below(item_pool()[cls].variants.size()); out.push_back(nr);
    }
    return out;
}

// ------------------------------------------------------------------------------------------------ walk read-back
struct WalkCtx { std::multiset<std::string> items; long blocks = 0, frames = 0, loops = 0, packets = 0; std::string problem; };
static int w_cif(cif_tp *, void *) { return CIF_TRAVERSE_CONTINUE; }
static int w_block(cif_container_tp *, void *c) { ++((WalkCtx *) c)->blocks; ++g_stats.events; return CIF_TRAVERSE_CONTINUE; }
static int w_frame(cif_container_tp *, void *c) { ++((WalkCtx *) c)->frames; ++g_stats.events; return CIF_TRAVERSE_CONTINUE; }
static int w_loop(cif_loop_tp *, void *c) { ++((WalkCtx *) c)->loops; ++g_stats.events; return CIF_TRAVERSE_CONTINUE; }
static int w_packet(cif_packet_tp *, void *c) { ++((WalkCtx *) c)->packets; ++g_stats.events; return CIF_TRAVERSE_CONTINUE; }
static int w_end(void *, void *) { return CIF_TRAVERSE_CONTINUE; }
static int w_item(UChar *name, cif_value_tp *value, void *c) {
    WalkCtx *w = (WalkCtx *) c; ++g_stats.events;
    try { MValue v = snapshot_value(value); w->items.insert(u8(mnorm(from_uchar(name))) + "=" + canon(v)); }
    catch (Violation &vi) { if (w->problem.empty()) w->problem = vi.detail; }
    return CIF_TRAVERSE_CONTINUE;
}
void ApiRun::op_walk(const Op &o) {
    int ci = pick_cif(o.a); if (ci < 0) SKIP("no CIF");
    RCif &c = cifs[(size_t) ci];
    if (c.iter >= 0) SKIP("iterator open");
    bool empty_loop = false; WalkCtx want;
    std::function<void(MCont &, int)> rec = [&](MCont &m, int d) {
        if (d) ++want.frames; else ++want.blocks;
        for (auto &l : m.loops) { ++want.loops; if (l.packets.empty()) empty_loop = true; for (auto &p : l.packets) { ++want.packets; for (auto &n : l.names) { auto it = p.vals.find(n.norm); want.items.insert(u8(n.norm) + "=" + ((it != p.vals.end() && it->second) ? canon(*it->second) : canon(MValue::unk()))); } } }
        for (auto &f : m.frames) rec(f, d + 1);
    };
    for (auto &b : c.model.blocks) rec(b, 0);
    if (empty_loop) SKIP("a packet-less loop exists (walking it is unspecified)");
    cif_handler_tp h = { w_cif, w_cif, w_block, (int (*)(cif_container_tp *, void *)) w_end, w_frame, (int (*)(cif_container_tp *, void *)) w_end, w_loop, (int (*)(cif_loop_tp *, void *)) w_end, w_packet, (int (*)(cif_packet_tp *, void *)) w_end, w_item };
    WalkCtx got;
    int rc = CALLN("cif_walk", cif_walk(c.cif, &h, &got));
    cover(o.k, rc, std::min<long>(want.packets, 3));
    if (fault_fired() && rc != CIF_OK) return;
    expect_rc("cif_walk", rc, {CIF_OK});
    if (!got.problem.empty()) violate("result", "walk:value", got.problem);
    if (got.blocks != want.blocks || got.frames != want.frames || got.loops != want.loops || got.packets != want.packets)
        violate(cfg.content_clause, "walk:counts", strprintf("cif_walk visited %ld/%ld/%ld/%ld blocks/frames/loops/packets, the model holds %ld/%ld/%ld/%ld", got.blocks, got.frames, got.loops, got.packets, want.blocks, want.frames, want.loops, want.packets));
    if (got.items != want.items) {
        std::string d; for (auto &s : got.items) if (!want.items.count(s)) { d = s; break; }
        if (d.empty()) for (auto &s : want.items) if (!got.items.count(s)) { d = "missing " + s; break; }
        violate(cfg.content_clause, "walk:items", strprintf("items presented by cif_walk differ from the model: %s", d.substr(0, 300).c_str()));
    }
    if (sqlite3_get_autocommit(c.cif->db) == 0) violate("autocommit", "cif_walk", "a transaction is still open after cif_walk");
}

// ------------------------------------------------------------------------------------------------ checkpoints: cif_write + re-parse
struct ErrRec { std::vector<int> codes; std::vector<size_t> lines; };
static int rec_error(int code, size_t line, size_t, const UChar *, size_t, void *data) { ErrRec *e = (ErrRec *) data; if (e->codes.size() < 64) { e->codes.push_back(code); e->lines.push_back(line); } ++g_stats.events; return 0; }
static bool decode_utf8(const std::vector<unsigned char> &b, std::vector<uint32_t> &out) {
    size_t i = 0;
    while (i < b.size()) {
        unsigned c = b[i]; uint32_t cp; int n;
        if (c < 0x80) { cp = c; n = 1; } else if ((c & 0xe0) == 0xc0) { cp = c & 0x1f; n = 2; } else if ((c & 0xf0) == 0xe0) { cp = c & 0x0f; n = 3; } else if ((c & 0xf8) == 0xf0) { cp = c & 0x07; n = 4; } else return false;
        if (i + (size_t) n > b.size()) return false;
        for (int k = 1; k < n; ++k) { if ((b[i + (size_t) k] & 0xc0) != 0x80) return false; cp = (cp << 6) | (b[i + (size_t) k] & 0x3f); }
        if ((n == 2 && cp < 0x80) || (n == 3 && cp < 0x800) || (n == 4 && cp < 0x10000) || cp > 0x10ffff || (cp >= 0xd800 && cp <= 0xdfff)) return false;
        out.push_back(cp); i += (size_t) n;
    }
    return true;
}
static bool has_nested_frames(const MCif &m) { for (auto &b : m.blocks) for (auto &f : b.frames) if (!f.frames.empty()) return true; return false; }
static bool has_frames(const MCif &m) { for (auto &b : m.blocks) if (!b.frames.empty()) return true; return false; }
// conservative: true only when the key can certainly be written as a quoted or triple-quoted string
static bool key_certainly_presentable(const ustr &k) {
    if (k.size() > 1800) return false;
    bool nl = false, sq = false, dq = false;
    for (char16_t c : k) { if (c == '\n') nl = true; if (c == '\'') sq = true; if (c == '"') dq = true; }
    if (!nl && (!sq || !dq)) return true;
    bool t1 = k.find(U("'''")) == ustr::npos && (k.empty() || k.back() != '\''), t2 = k.find(U("\"\"\"")) == ustr::npos && (k.empty() || k.back() != '"');
    return t1 || t2;
}
struct Causes { bool composite = false, nl_semi = false, non11 = false, bad_key = false; };
static void scan_value(const MValue &v, Causes &c, bool nested) {
    switch (v.kind) {
        case CIF_LIST_KIND: c.composite = true; for (auto &e : v.elems) scan_value(e, c, true); break;
        case CIF_TABLE_KIND: c.composite = true; for (auto &e : v.entries) { if (!key_certainly_presentable(e.first)) c.bad_key = true; for (char16_t ch : e.first) if (ch > 0x7e || (ch < 0x20 && ch != '\n' && ch != '\t')) c.non11 = true; scan_value(e.second, c, true); } break;
        case CIF_CHAR_KIND: case CIF_NUMB_KIND:
            if (v.text.find(U("\n;")) != ustr::npos) c.nl_semi = true;
            // a leading semicolon in a value that must be folded needs the prefix protocol, which CIF 1.1 output refuses like "\n;"
            // (conservative approximation of the writer's fold decision: over-long first / any line, or first line ending in a backslash)
            if (!v.text.empty() && v.text[0] == u';') {
                size_t e = v.text.find(u'\n'); ustr first = e == ustr::npos ? v.text : v.text.substr(0, e);
                size_t maxl = 0, cur = 0; for (char16_t ch : v.text) { if (ch == u'\n') { maxl = std::max(maxl, cur); cur = 0; } else ++cur; } maxl = std::max(maxl, cur);
                size_t t = first.size(); while (t > 0 && (first[t - 1] == u' ' || first[t - 1] == u'\t')) --t;
                if (first.size() >= 2040 || maxl > 2040 || (t > 0 && first[t - 1] == u'\\')) c.nl_semi = true;
            }
            for (char16_t ch : v.text) if (ch > 0x7e || (ch < 0x20 && ch != '\n' && ch != '\t')) c.non11 = true;
            break;
        default: break;
    }
    (void) nested;
}
static void scan_cont(const MCont &m, Causes &c) {
    for (char16_t ch : m.code_orig) if (ch > 0x7e || ch < 0x21) c.non11 = true;
    for (auto &l : m.loops) { for (auto &n : l.names) for (char16_t ch : n.orig) if (ch > 0x7e || ch < 0x21) c.non11 = true; for (auto &p : l.packets) for (auto &kv : p.vals) if (kv.second) scan_value(*kv.second, c, false); }
    for (auto &f : m.frames) scan_cont(f, c);
}
void ApiRun::verify_roundtrip(int ci, int version, const Op &o) {
    RCif &c = cifs[(size_t) ci];
    const std::string P = cfg.prop;
    Causes causes; for (auto &b : c.model.blocks) scan_cont(b, causes);
    SimOut out; Rng r(hmix(o.seed, 5));
    (void) r.chance(1, 2);   // (short writes are not injected: glibc never shows them to fwrite callers on real files, and does not retry them on cookie streams)
    bool wfault = o.fault_kind == 20;
    if (wfault) { out.err_at = o.fault_at; g_stats.inc("fault.stream_write_err.configured"); }
    struct cif_write_opts_s *wo = NULL;
    int rc0 = CALL("cif_write_options_create", (wo = NULL, cif_write_options_create(&wo)));
    expect_rc("cif_write_options_create", rc0, {CIF_OK});
    wo->cif_version = version == 1 ? 1 : (r.chance(1, 2) ? 2 : 0);
    bool null_opts = r.chance(1, 4) && version != 1;
    int ferr = 0;
    // each attempt (there is more than one only under allocation-failure enumeration) writes to a freshly opened stream
    int rc = api("cif_write", [&]() { FILE *f = out.open(); int q = cif_write(f, null_opts ? NULL : wo, c.cif); fflush(f); ferr = ferror(f); fclose(f); return q; }, A_REPEATABLE);
    lib_free(wo);
    cover(O_Checkpoint, rc, (uint64_t) version * 16 + (causes.composite ? 1 : 0) + (causes.nl_semi ? 2 : 0) + (causes.non11 ? 4 : 0) + (wfault ? 8 : 0));
    ev("cif_write(v%d) -> %s, %zu bytes, ferror=%d", version, rc_name(rc), out.data.size(), ferr);
    if (g_log.keep_text) {   // for humans reading a replay trace; not part of the fingerprint-relevant decisions
        std::string o; static const char *sl = getenv("CIFSIM_SHOWLEN"); size_t lim = sl ? (size_t) atoi(sl) : 1500;
        for (size_t i = 0; i < out.data.size() && o.size() < lim; ++i) { unsigned char ch = out.data[i]; if (ch == '\n') o += "\\n"; else if (ch >= 0x20 && ch < 0x7f) o += (char) ch; else o += strprintf("\\x%02x", ch); }
        g_log.text.push_back("output: " + o); if (g_log.side) { fputs(("output: " + o + "\n").c_str(), g_log.side); fflush(g_log.side); }
    }
    if (sqlite3_get_autocommit(c.cif->db) == 0) violate("autocommit", "cif_write", "a transaction is still open after cif_write");
    check_dump(ci, "after cif_write (source must be unchanged)");
    if (wfault && out.err_fired) {
        g_stats.inc(rc == CIF_OK ? "write_fault.reported_ok" : "write_fault.reported_error");
        if (!(rc == CIF_OK && ferr == 0)) return;     // relaxed: an undetected write error leaves ferror set; the caller can see it
    }
    if (rc != CIF_OK) {
        if (version != 1) {
            // discriminator: where in the output did the writer give up?
            std::string where = "elsewhere";
            {   // ... while placing the value that follows a table key's colon: the output ends with "<quote>:" plus at most
                // blanks / a line break and one incomplete token
                size_t e = out.data.size(), k = std::string::npos;
                for (size_t i = e; i-- > 1;) if (out.data[i] == ':' && (out.data[i - 1] == '\'' || out.data[i - 1] == '"')) { k = i; break; }
                if (k != std::string::npos) { size_t t = k + 1; while (t < e && (out.data[t] == ' ' || out.data[t] == '\n')) ++t; bool one_token = true; for (size_t i = t; i < e; ++i) if (out.data[i] == ' ' || out.data[i] == '\n' || out.data[i] == '\t') { bool only_ws_after = true; for (size_t j = i; j < e; ++j) if (out.data[j] != ' ' && out.data[j] != '\n') only_ws_after = false; if (!only_ws_after) one_token = false; break; } if (one_token) where = "value_after_table_key_does_not_fit_line"; }
            }
            if (!(rc == CIF_DISALLOWED_VALUE && causes.bad_key)) violate("refused", strprintf("cif_write:%s:%s", rc_name(rc), where.c_str()), strprintf("cif_write (CIF 2.0) returned %s for a CIF whose loops all hold packets and whose content is CIF 2.0 text", rc_name(rc)));
            g_stats.inc("write.refused_key"); return;
        }
        bool ok = (rc == CIF_DISALLOWED_VALUE && (causes.composite || causes.nl_semi)) || (rc == CIF_DISALLOWED_CHAR && causes.non11);
        if (!ok) violate("refusal", strprintf("cif_write:%s:%d%d%d", rc_name(rc), causes.composite, causes.nl_semi, causes.non11), strprintf("cif_write (CIF 1.1) returned %s; refusal causes present: list/table=%d newline-semicolon=%d non-1.1-character=%d", rc_name(rc), causes.composite, causes.nl_semi, causes.non11));
        g_stats.inc(rc == CIF_DISALLOWED_VALUE ? "write11.refused_value" : "write11.refused_char"); return;
    }
    // ---- byte-level well-formedness
    const std::vector<unsigned char> &b = out.data;
    const char *magic = version == 1 ? "#\\#CIF_1.1\n" : "#\\#CIF_2.0\n";
    if (b.size() < 11 || memcmp(b.data(), magic, 11) != 0) violate("magic", "cif_write", strprintf("output does not start with the %s version comment", version == 1 ? "1.1" : "2.0"));
    std::vector<uint32_t> cps;
    if (version == 1) { for (unsigned char ch : b) { if (!((ch >= 0x20 && ch <= 0x7e) || ch == '\n' || ch == '\t' || ch == '\r')) violate("charset", "cif_write", strprintf("CIF 1.1 output contains byte 0x%02x", ch)); cps.push_back(ch); } }
    else if (!decode_utf8(b, cps)) violate("utf8", "cif_write", "output is not valid UTF-8");
    size_t col = 0, line = 1;
    for (uint32_t cp : cps) { if (cp == '\n') { if (col > 2048) violate("line", "cif_write", strprintf("output line %zu has %zu characters", line, col)); col = 0; ++line; } else ++col; }
    if (col > 2048) violate("line", "cif_write", strprintf("last output line has %zu characters", col));
    // ---- recovery: re-parse into a fresh managed CIF
    SimIn in; in.data = b; in.chunk = r.chance(1, 2) ? (size_t) r.range(1, 300) : 0;
    FILE *fi = in.open();
    struct cif_parse_opts_s *po = NULL;
    int rcp = CALL("cif_parse_options_create", (po = NULL, cif_parse_options_create(&po)));
    expect_rc("cif_parse_options_create", rcp, {CIF_OK});
    ErrRec er; po->error_callback = rec_error; po->user_data = &er;
    po->max_frame_depth = has_nested_frames(c.model) ? -1 : (has_frames(c.model) ? 1 : (int) r.range(0, 1));
    if (version == 1) { po->prefer_cif2 = -1; po->line_folding_modifier = 1; po->text_prefixing_modifier = 1; }
    cif_tp *fresh = NULL;
    fclose(fi);
    int rc2 = api("cif_parse", [&]() { if (fresh) { int q = cif_destroy(fresh); (void) q; fresh = NULL; } er = ErrRec(); FILE *fj = in.open(); int q = cif_parse(fj, po, &fresh); fclose(fj); return q; }, A_REPEATABLE);
    lib_free(po);
    std::unique_ptr<Violation> bad;
    try {
        if (rc2 != CIF_OK || !er.codes.empty()) violate("reparse", strprintf("cif_parse:%s:%s", rc_name(rc2), er.codes.empty() ? "-" : rc_name(er.codes[0])), strprintf("re-parsing the output of cif_write gives %s with %zu error(s), first %s at line %zu", rc_name(rc2), er.codes.size(), er.codes.empty() ? "-" : rc_name(er.codes[0]), er.lines.empty() ? 0 : er.lines[0]));
        if (!fresh) violate("reparse", "cif_parse:null", "cif_parse returned no CIF");
        MCif back = dump_cif(fresh, P.c_str());
        DumpOpts dop; dop.eq = VE_ROUNDTRIP; dop.names_by_norm = true; dop.codes_by_norm = true; dop.ignore_category = true;
        std::string a = canon(c.model, dop), bb = canon(back, dop);
        if (a != bb) violate("equiv", strprintf("v%d", version), strprintf("the re-parsed CIF differs from the original: %s", first_diff(a, bb).c_str()));
        if (version == 1 && (causes.composite || causes.nl_semi || causes.non11)) g_stats.inc("write11.ok_despite_cause");
    } catch (Violation &vi) { bad.reset(new Violation(vi)); }
    if (fresh) { int rd = CALLN("cif_destroy", cif_destroy(fresh)); if (rd != CIF_OK && !bad) bad.reset(new Violation(P + ".destroy", rc_name(rd), "cif_destroy of the re-parsed CIF failed", cur_op)); }
    if (bad) throw *bad;
    g_stats.inc(version == 1 ? "write11.roundtrips" : "write20.roundtrips");
}
void ApiRun::op_checkpoint(const Op &o) {
    int ci = pick_cif(o.a); if (ci < 0) SKIP("no CIF");
    if (cifs[(size_t) ci].iter >= 0) { Op e = o; op_iter_end(e, (o.b % 2) != 0); }
    prune_all(ci);
    verify_roundtrip(ci, cfg.write_version, o);
}
// Parsing a small well-formed document into an existing managed CIF, in the middle of a history (C04 "interleaved with
// parsing into them").  The document's block codes are kept distinct from the blocks already present, so that the expected
// outcome is simply "the CIF gains these blocks"; everything else about the target (handles, other blocks, other CIFs) must
// be untouched.
static void renumber(MCont &c, ApiRun *r) { c.uid = r->new_uid(); for (auto &l : c.loops) { l.uid = r->new_uid(); for (auto &p : l.packets) p.uid = r->new_uid(); } for (auto &f : c.frames) renumber(f, r); }
void ApiRun::op_parse_into(const Op &o) {
    int ci = pick_cif(o.a); if (ci < 0) SKIP("no CIF");
    RCif &c = cifs[(size_t) ci];
    if (c.iter >= 0) SKIP("iterator open");
    if (o.fault_kind) SKIP("parse_into is not combined with storage faults");
    Rng r(o.seed);
    DocCfg dc; dc.version = 2; dc.max_blocks = (int) r.range(1, 2); dc.max_items = (int) r.range(1, 4); dc.max_loop_names = 3; dc.max_packets = 3; dc.frames = r.chance(1, 2);
    dc.vals.max_depth = o.simple ? 0 : (int) r.range(0, 2); dc.vals.max_members = 3; dc.vals.allow_long = false;
    Doc d = gen_doc(r, dc);
    // drop blocks whose code is already present in the target (or twice in the document)
    std::set<ustr> seen; std::vector<DBlock> keep;
    for (auto &b : d.blocks) { ustr n = mnorm(b.code); if (c.model.block(n) || !seen.insert(n).second) continue; keep.push_back(b); }
    d.blocks = keep; if (d.blocks.empty()) SKIP("all generated block codes are taken");
    Rng lr(r.next()); Layout lay = layout_doc(d, lr, dc);
    SimIn in; in.data = lay.utf8(); in.chunk = r.chance(1, 2) ? (size_t) r.range(1, 200) : 0;
    struct cif_parse_opts_s *po = NULL;
    int rcp = CALLN("cif_parse_options_create", (po = NULL, cif_parse_options_create(&po)));
    expect_rc("cif_parse_options_create", rcp, {CIF_OK});
    ErrRec er; po->error_callback = rec_error; po->user_data = &er; po->max_frame_depth = -1;
    cif_tp *target = c.cif;
    FILE *f = in.open();
    // (not enumerated under allocation failures: a parse that fails half way legitimately leaves what it had stored so far)
    int rc = CALLN("cif_parse", cif_parse(f, po, &target));
    fclose(f); lib_free(po);
    cover(o.k, rc, (uint64_t) d.blocks.size());
    ev("cif_parse into cif%d: %zu block(s), %zu bytes -> %s, %zu error(s)", ci, d.blocks.size(), in.data.size(), rc_name(rc), er.codes.size());
    if (target != c.cif) violate("result", "cif_parse:target_changed", "cif_parse replaced the caller's CIF pointer although a CIF was supplied");
    if (rc != CIF_OK || !er.codes.empty()) violate("rc", strprintf("cif_parse_into:%s:%s", rc_name(rc), er.codes.empty() ? "-" : rc_name(er.codes[0])), strprintf("parsing a well-formed document with fresh block codes into an existing CIF gives %s with %zu error(s), first %s", rc_name(rc), er.codes.size(), er.codes.empty() ? "-" : rc_name(er.codes[0])));
    MCif add = expected_model(d);
    for (auto &b : add.blocks) { renumber(b, this); c.model.blocks.push_back(b); }
    g_stats.inc("api.parse_into");
    after_mutation(ci, false);
}

// ------------------------------------------------------------------------------------------------ planted failing calls (C05)
// A failing cif_container_set_value that fails AFTER it has begun its transaction.  The only way to provoke that without faults is a
// scalar loop that has lost its only packet but not its row counter (explicit scalar loop of two items, one packet valuing only the
// first item, that item removed): adding a new scalar there is refused by the schema (CIF_RESERVED_LOOP) once the item has already
// been registered.  What cif.h says about that state is thin, so it is built in a scratch block outside the model, judged only by
// "a failed call leaves no trace" (dump of the scratch block before = after), and destroyed again.
void ApiRun::plant_stranded_scalar(const Op &o, int ci) {
    RCif &c = cifs[(size_t) ci];
    if (c.iter >= 0) SKIP("iterator open");
    disarm_faults();                 // this planted failure is not combined with storage faults (its set-up must succeed)
    ustr code = U("zz_scratch_block");
    if (c.model.block(mnorm(code))) SKIP("scratch code taken");
    cif_block_tp *b = NULL;
    if (CALLN("cif_create_block", cif_create_block(c.cif, UC(code), &b)) != CIF_OK || !b) SKIP("scratch block not created");
    std::unique_ptr<Violation> bad;
    try {
        ustr na = U("_sa"), nb = U("_sb"), nc = U("_sc"), empty;
        UChar *names[3] = { (UChar *) UC(na), (UChar *) UC(nb), NULL }; cif_loop_tp *l = NULL;
        int rc = CALLN("cif_container_create_loop", cif_container_create_loop(b, UC(empty), names, &l));
        if (rc != CIF_OK || !l) { ev("scratch: create_loop -> %s", rc_name(rc)); throw 0; }
        UChar *n1[2] = { (UChar *) UC(na), NULL }; cif_packet_tp *p = NULL; cif_value_tp *v = NULL;
        rc = cif_packet_create(&p, n1); if (rc == CIF_OK) rc = cif_value_create(CIF_UNK_KIND, &v); if (rc == CIF_OK) rc = cif_value_copy_char(v, UC(U("x"))); if (rc == CIF_OK) rc = cif_packet_set_item(p, UC(na), v);
        if (rc == CIF_OK) rc = CALLN("cif_loop_add_packet", cif_loop_add_packet(l, p));
        if (rc == CIF_OK) rc = CALLN("cif_container_remove_item", cif_container_remove_item(b, UC(na)));
        if (p) cif_packet_free(p);
        cif_loop_free(l);
        if (rc != CIF_OK) { if (v) cif_value_free(v); ev("scratch: setup -> %s", rc_name(rc)); throw 0; }
        std::string before = canon(dump_container(b, cfg.prop.c_str()), DumpOpts(), 0);
        int r2 = CALL("cif_container_set_value", cif_container_set_value(b, UC(nc), v));
        cif_value_free(v);
        ev("plant %d (stranded scalar loop): cif_container_set_value -> %s", o.pf_kind, rc_name(r2));
        g_stats.inc(strprintf("plant.kind%02d.pos%d", o.pf_kind, 0)); g_stats.inc(r2 == CIF_OK ? "plant.stranded.ok" : "plant.stranded.failed");
        if (r2 != CIF_OK) {
            std::string after = canon(dump_container(b, cfg.prop.c_str()), DumpOpts(), 0);
            if (before != after) violate("unchanged", strprintf("plant%d:set_value", o.pf_kind), strprintf("cif_container_set_value failed with %s but changed the container: %s", rc_name(r2), first_diff(before, after).c_str()));
            if (sqlite3_get_autocommit(c.cif->db) == 0) violate("autocommit", strprintf("plant%d:tx_left_open", o.pf_kind), "the failing call left a transaction open");
        }
    } catch (Violation &vi) { bad.reset(new Violation(vi)); } catch (int) { }
    int rd = CALLN("cif_container_destroy", cif_container_destroy(b));
    if (bad) throw *bad;
    if (rd != CIF_OK) violate("next_call", "scratch_destroy", strprintf("the scratch block cannot be destroyed: %s", rc_name(rd)));
    check_dump(ci, "after the scratch block was destroyed");
}
void ApiRun::op_plant_fail(const Op &o) {
    int hs = pick_cont(o.a, true); if (hs < 0) SKIP("no container handle on a CIF without an open iterator");
    int ci = conts[(size_t) hs].cif; RCif &c = cifs[(size_t) ci];
    if (o.pf_kind == PF_SetValueStrandedScalar) { plant_stranded_scalar(o, ci); return; }
    MCont *m = mcont(hs);
    Rng r(o.seed);
    // candidate loop handles in this CIF
    std::vector<int> lslots; for (size_t i = 0; i < loops.size(); ++i) if (loops[i].h && !loops[i].locked && loops[i].cif == ci && !loop_stale((int) i)) lslots.push_back((int) i);
    int iter_loop = -1;
    if (o.inside_tx && o.pf_kind != PF_IterUpdateForeign) {
        std::vector<int> withp; for (int s : lslots) if (!mloop(s)->packets.empty()) withp.push_back(s);
        if (!withp.empty()) {
            iter_loop = withp[r.below(withp.size())];
            Op io; io.k = O_IterOpen; io.seed = o.seed ^ 1; forced_loop = iter_loop; op_iter_open(io); forced_loop = -1;
            if (c.iter >= 0) { Op nx; nx.k = O_IterNext; nx.pk_mode = 1; nx.seed = o.seed ^ 2; nx.a = 0; for (size_t i = 0; i < cifs.size(); ++i) if ((int) i == ci) { /* pick_iter_cif uses a % count; find the ordinal */ }
                int ord = 0, cnt = 0; for (size_t i = 0; i < cifs.size(); ++i) if (cifs[i].cif && cifs[i].iter >= 0) { if ((int) i == ci) ord = cnt; ++cnt; } nx.a = (uint32_t) ord; op_iter_next(nx); }
        }
    }
    bool inside = c.iter >= 0;
    uint64_t iter_uid = inside ? loops[(size_t) iter_loop].loop_uid : 0;
    // a loop to aim loop-level failures at (never the iterated one)
    int target = -1; { std::vector<int> cand; for (int s : lslots) if (loops[(size_t) s].loop_uid != iter_uid) cand.push_back(s); if (!cand.empty()) target = cand[r.below(cand.size())]; }
    Op bad, good; bad.seed = o.seed ^ 11; good.seed = o.seed ^ 12; bad.b = good.b = 1; bool have_good = true;
    forced_cont = -1; forced_loop = -1;
    int fc = hs, fl = -1;
    auto name_of = [&](const MName &n) { NameRef nr; for (size_t i = 0; i < item_pool().size(); ++i) if (mnorm(item_pool()[i].variants[0]) == n.norm) { nr.cls = (int) i; nr.variant = (int) r.below(item_pool()[i].variants.size()); } return nr; };
    switch (o.pf_kind) {
        case PF_LoopCreateInvalid: case PF_LoopCreateDupExisting: case PF_LoopCreateDupSelf: {
            std::vector<NameRef> fr = fresh_names(m, 3, o.seed ^ 3);
            if (fr.size() < 2) { have_good = false; break; }
            bad.k = good.k = O_LoopCreate; bad.cat_kind = good.cat_kind = (int) r.weighted({40, 0, 60}); bad.cat_idx = good.cat_idx = (int) r.below(5);
            good.names = fr; bad.names = fr;
            size_t pos = std::min<size_t>((size_t) o.pos, fr.size() - 1);
            if (o.pf_kind == PF_LoopCreateInvalid) { NameRef inv; inv.invalid = (int) r.below(invalid_items().size()); bad.names[pos] = inv; }
            else if (o.pf_kind == PF_LoopCreateDupExisting) { std::vector<MName> ex; for (auto &l : m->loops) if (l.uid != iter_uid) for (auto &n : l.names) ex.push_back(n); if (ex.empty()) { have_good = false; break; } bad.names[pos] = name_of(ex[r.below(ex.size())]); }
            else { size_t src = pos == 0 ? 1 : 0; NameRef d = fr[src]; d.variant = (int) r.below(item_pool()[(size_t) d.cls].variants.size()); bad.names[pos] = d; }
            break;
        }
        case PF_AddPacketForeign: case PF_AddPacketEmpty: case PF_AddPacketScalar2: case PF_AddPacketStale: {
            bad.k = good.k = O_LoopAddPacket; good.pk_mode = 0;
            if (o.pf_kind == PF_AddPacketStale) { int st = -1; for (size_t i = 0; i < loops.size(); ++i) if (loops[i].h && !loops[i].locked && loops[i].cif == ci && loop_stale((int) i)) st = (int) i; if (st < 0) { have_good = false; break; } fl = st; bad.pk_mode = 0; good.k = O_Dump; break; }
            if (o.pf_kind == PF_AddPacketScalar2) { int sc = -1; for (int s : lslots) if (mloop(s)->is_scalar() && !mloop(s)->packets.empty() && loops[(size_t) s].loop_uid != iter_uid) sc = s; if (sc < 0) { have_good = false; break; } fl = sc; bad.pk_mode = 0; good.k = O_Dump; break; }
            if (target < 0) { have_good = false; break; }
            fl = target; bad.pk_mode = o.pf_kind == PF_AddPacketForeign ? 3 : 2; bad.pos = o.pos; bad.names = fresh_names(find_cont(c.model, loops[(size_t) target].cont_uid), 1, o.seed ^ 4);
            if (bad.names.empty()) { NameRef nr; nr.cls = 0; bad.names.push_back(nr); }
            break;
        }
        case PF_BlockDup: case PF_BlockInvalid: {
            bad.k = good.k = O_BlockCreate; bad.a = good.a = 0;
            // aim at this CIF: pick_cif uses modulo over live CIFs
            { int ord = 0, cnt = 0; for (size_t i = 0; i < cifs.size(); ++i) if (cifs[i].cif) { if ((int) i == ci) ord = cnt; ++cnt; } bad.a = good.a = (uint32_t) ord; }
            if (o.pf_kind == PF_BlockInvalid) bad.code.invalid = (int) r.below(invalid_codes().size());
            else { if (c.model.blocks.empty()) { have_good = false; break; } const MCont &b = c.model.blocks[r.below(c.model.blocks.size())]; NameRef nr; bool f = false; for (size_t i = 0; i < code_pool().size(); ++i) if (mnorm(code_pool()[i].variants[0]) == b.code_norm) { nr.cls = (int) i; nr.variant = (int) r.below(code_pool()[i].variants.size()); f = true; } if (!f) { have_good = false; break; } bad.code = nr; }
            { bool f = false; for (size_t i = 0; i < code_pool().size(); ++i) if (!c.model.block(mnorm(code_pool()[i].variants[0]))) { good.code.cls = (int) i; good.code.variant = 0; f = true; break; } if (!f) good.k = O_Dump; }
            fc = -1;
            break;
        }
        case PF_FrameDup: case PF_FrameInvalid: {
            bad.k = good.k = O_FrameCreate;
            if (o.pf_kind == PF_FrameInvalid) bad.code.invalid = (int) r.below(invalid_codes().size());
            else { if (m->frames.empty()) { have_good = false; break; } const MCont &b = m->frames[r.below(m->frames.size())]; NameRef nr; bool f = false; for (size_t i = 0; i < code_pool().size(); ++i) if (mnorm(code_pool()[i].variants[0]) == b.code_norm) { nr.cls = (int) i; nr.variant = (int) r.below(code_pool()[i].variants.size()); f = true; } if (!f) { have_good = false; break; } bad.code = nr; }
            { bool f = false; for (size_t i = 0; i < code_pool().size(); ++i) if (!m->frame(mnorm(code_pool()[i].variants[0]))) { good.code.cls = (int) i; good.code.variant = 0; f = true; break; } if (!f) good.k = O_Dump; }
            break;
        }
        case PF_AddItemDup: case PF_AddItemInvalid: {
            if (target < 0) { have_good = false; break; }
            fl = target; bad.k = good.k = O_LoopAddItem;
            MCont *tc = find_cont(c.model, loops[(size_t) target].cont_uid);
            std::vector<NameRef> fr = fresh_names(tc, 1, o.seed ^ 5);
            if (fr.empty()) good.k = O_Dump; else good.names = fr;
            if (o.pf_kind == PF_AddItemInvalid) { NameRef inv; inv.invalid = (int) r.below(invalid_items().size()); bad.names.push_back(inv); }
            else { std::vector<MName> ex; for (auto &l : tc->loops) if (l.uid != iter_uid) for (auto &n : l.names) ex.push_back(n); if (ex.empty()) { have_good = false; break; } bad.names.push_back(name_of(ex[r.below(ex.size())])); }
            break;
        }
        case PF_SetValueInvalid: {
            bad.k = good.k = O_SetValue; NameRef inv; inv.invalid = (int) r.below(invalid_items().size()); bad.names.push_back(inv);
            std::vector<NameRef> fr = fresh_names(m, 1, o.seed ^ 6); if (fr.empty()) good.k = O_Dump; else good.names = fr;
            break;
        }
        case PF_SetCatReserved: {
            if (target < 0) { have_good = false; break; }
            fl = target; bad.k = good.k = O_LoopSetCat; MLoop *tl = mloop(target);
            if (tl->is_scalar()) { bad.cat_kind = r.chance(1, 2) ? 0 : 2; bad.cat_idx = 0; good.k = O_Dump; } else { bad.cat_kind = 1; good.cat_kind = 2; good.cat_idx = (int) r.below(5); }
            break;
        }
        case PF_RemoveMissing: {
            bad.k = good.k = O_RemoveItem; std::vector<NameRef> fr = fresh_names(m, 1, o.seed ^ 7); if (fr.empty()) { have_good = false; break; } bad.names = fr;
            std::vector<MName> ex; for (auto &l : m->loops) if (l.uid != iter_uid) for (auto &n : l.names) ex.push_back(n);
            if (ex.empty() || inside) good.k = O_Dump; else good.names.push_back(name_of(ex[r.below(ex.size())]));
            break;
        }
        case PF_IterUpdateForeign: {
            std::vector<int> withp; for (int s : lslots) if (!mloop(s)->packets.empty()) withp.push_back(s);
            if (withp.empty()) { have_good = false; break; }
            int it_loop = withp[r.below(withp.size())];
            Op io; io.k = O_IterOpen; io.seed = o.seed ^ 21; forced_loop = it_loop; op_iter_open(io); forced_loop = -1;
            if (c.iter < 0) { have_good = false; break; }
            int ord = 0, cnt = 0; for (size_t i = 0; i < cifs.size(); ++i) if (cifs[i].cif && cifs[i].iter >= 0) { if ((int) i == ci) ord = cnt; ++cnt; }
            Op nx; nx.k = O_IterNext; nx.pk_mode = 1; nx.seed = o.seed ^ 22; nx.a = (uint32_t) ord; op_iter_next(nx);
            if (c.iter >= 0 && r.chance(1, 2)) {
                // prelude inside the same transaction: a query or a refused call on ANOTHER loop (calls that take and leave savepoints of
                // their own), then a valid update of the delivered packet -- the refusal planted next must not take that update with it
                std::vector<int> others; for (int s : lslots) if (s != it_loop && loops[(size_t) s].loop_uid != loops[(size_t) it_loop].loop_uid) others.push_back(s);
                int saved = cur_kind;
                if (!others.empty()) {
                    int t2 = others[r.below(others.size())]; Op pre; pre.seed = o.seed ^ 24; pre.b = 1;
                    MCont *tc = find_cont(c.model, loops[(size_t) t2].cont_uid);
                    std::vector<MName> ex; if (tc) for (auto &l : tc->loops) if (l.uid != loops[(size_t) it_loop].loop_uid) for (auto &n : l.names) ex.push_back(n);
                    if (r.chance(1, 2) && !ex.empty()) { pre.k = O_LoopAddItem; pre.names.push_back(name_of(ex[r.below(ex.size())])); } else pre.k = O_LoopNames;
                    forced_loop = t2; cur_kind = pre.k; try { exec(pre); } catch (...) { forced_loop = -1; cur_kind = saved; throw; } forced_loop = -1;
                }
                if (c.iter >= 0) { Op g0; g0.k = O_IterUpdate; g0.a = (uint32_t) ord; g0.pk_mode = (int) r.below(2); g0.seed = o.seed ^ 23; cur_kind = g0.k; try { exec(g0); } catch (...) { cur_kind = saved; throw; } }
                cur_kind = saved; g_stats.inc("plant.iter_update_foreign.prelude");
                if (c.iter < 0) { have_good = false; break; }
            }
            bad.k = good.k = O_IterUpdate; bad.a = good.a = (uint32_t) ord; bad.pk_mode = 3; bad.pos = o.pos; good.pk_mode = (int) r.below(2);
            bad.names = fresh_names(find_cont(c.model, loops[(size_t) it_loop].cont_uid), 1, o.seed ^ 8); if (bad.names.empty()) { NameRef nr; bad.names.push_back(nr); }
            inside = true; fc = -1;
            break;
        }
        default: have_good = false; break;
    }
    if (!have_good) { if (c.iter >= 0) { Op e; e.k = O_IterClose; int ord = 0, cnt = 0; for (size_t i = 0; i < cifs.size(); ++i) if (cifs[i].cif && cifs[i].iter >= 0) { if ((int) i == ci) ord = cnt; ++cnt; } e.a = (uint32_t) ord; op_iter_end(e, false); } SKIP("no suitable target for the planted failure"); }
    g_stats.cover(hmix(hmix(hstr("plant"), (uint64_t) o.pf_kind), hmix((uint64_t) o.pos, inside ? 1 : 0)));
    ev("plant %d pos=%d inside_tx=%d", o.pf_kind, o.pos, inside ? 1 : 0);
    g_stats.inc(strprintf("plant.kind%02d.pos%d", o.pf_kind, o.pos));
    // ---- the failing call
    forced_cont = fc; forced_loop = fl; last_rc = -12345;
    int saved_kind = cur_kind; cur_kind = bad.k;
    try { exec(bad); } catch (...) { forced_cont = forced_loop = -1; throw; }
    forced_cont = forced_loop = -1;
    if (last_rc == -12345) ev("planted call was skipped");
    else {
        if (last_rc == CIF_OK && !(bad.k == O_IterUpdate)) violate("failed", strprintf("plant%d:%s", o.pf_kind, opk_name(bad.k)), strprintf("a call constructed to fail (planted failure kind %d) returned CIF_OK", o.pf_kind));
        if (c.cif) {
            int ac = sqlite3_get_autocommit(c.cif->db);
            if (c.iter >= 0 && ac != 0 && fault_fired()) {
                // a storage-engine I/O error (not one of C05's failure causes) makes SQLite roll back the whole enclosing
                // transaction by itself; the iterator is dead, the content must be that of the snapshot taken when it was opened
                ev("the storage fault made the engine roll back the iterator transaction"); g_stats.inc("plant.engine_rollback");
                Op e; e.k = O_IterAbort; int ord = 0, cnt = 0; for (size_t i = 0; i < cifs.size(); ++i) if (cifs[i].cif && cifs[i].iter >= 0) { if ((int) i == ci) ord = cnt; ++cnt; } e.a = (uint32_t) ord;
                disarm_faults(); op_iter_end(e, true, true); cur_kind = saved_kind; return;
            }
            if (c.iter >= 0 && ac != 0) violate("autocommit", strprintf("plant%d:tx_lost", o.pf_kind), "the failing call ended the enclosing iterator transaction");
            if (c.iter < 0 && ac == 0) violate("autocommit", strprintf("plant%d:tx_left_open", o.pf_kind), "the failing call left a transaction open");
        }
        g_stats.inc(inside ? "plant.inside_tx" : "plant.top_level");
        // ---- the follow-up valid call of the same kind
        if (good.k != O_Dump) { forced_cont = fc; forced_loop = fl; cur_kind = good.k; if (c.iter >= 0 && good.k != O_IterUpdate) tx_other_mods = true; try { exec(good); } catch (Violation &v) { forced_cont = forced_loop = -1; throw Violation(cfg.prop + ".next_call", v.sig, "after a failed call, the following valid call misbehaved: " + v.detail, cur_op); } forced_cont = forced_loop = -1; }
    }
    cur_kind = saved_kind;
    if (c.cif && c.iter >= 0) { Op e; e.k = o.abort_tx ? O_IterAbort : O_IterClose; int ord = 0, cnt = 0; for (size_t i = 0; i < cifs.size(); ++i) if (cifs[i].cif && cifs[i].iter >= 0) { if ((int) i == ci) ord = cnt; ++cnt; } e.a = (uint32_t) ord; op_iter_end(e, o.abort_tx); }
    else check_dump(ci, "after a planted failure and its follow-up");
}

// ------------------------------------------------------------------------------------------------ configurations / entry
static void base_weights(ApiCfg &c) {
    auto &w = c.weights;
    w[O_CifCreate] = 2; w[O_CifDestroy] = 1; w[O_BlockCreate] = 6; w[O_BlockGet] = 3; w[O_BlocksAll] = 1; w[O_FrameCreate] = 4; w[O_FrameGet] = 2; w[O_FramesAll] = 1;
    w[O_ContDestroy] = 2; w[O_ContCode] = 1; w[O_LoopCreate] = 8; w[O_LoopByCat] = 2; w[O_LoopByItem] = 3; w[O_LoopsAll] = 2; w[O_Prune] = 2; w[O_GetValue] = 6; w[O_SetValue] = 12;
    w[O_RemoveItem] = 4; w[O_LoopDestroy] = 2; w[O_LoopCat] = 1; w[O_LoopNames] = 2; w[O_LoopSetCat] = 3; w[O_LoopAddItem] = 5; w[O_LoopAddPacket] = 12; w[O_IterOpen] = 3; w[O_IterNext] = 6;
    w[O_IterUpdate] = 3; w[O_IterRemove] = 2; w[O_IterClose] = 2; w[O_IterAbort] = 1; w[O_HandleFree] = 2; w[O_Dump] = 2; w[O_Walk] = 1; w[O_ParseInto] = 2;
}
ApiCfg api_config_for(const std::string &prop, const RunSpec &spec) {
    ApiCfg c; c.prop = prop; c.quick = spec.tier != "thorough";
    base_weights(c);
    auto &w = c.weights;
    if (prop == "C04") {
        // histories that remove packets through an iterator and then prune / re-read (row numbers are never reused)
        w[O_Prune] = 5; w[O_IterRemove] = 4; w[O_IterNext] = 8; w[O_IterOpen] = 4;
        if (spec.run % 3 == 2) {   // a third of the histories are iterator-heavy (as in C06), with pruning and loop queries in between
            w[O_IterOpen] = 10; w[O_IterNext] = 26; w[O_IterUpdate] = 8; w[O_IterRemove] = 10; w[O_IterClose] = 6; w[O_IterAbort] = 2; w[O_LoopAddPacket] = 22; w[O_Prune] = 8; w[O_LoopsAll] = 4; w[O_FrameCreate] = 2; c.max_cifs = 2; c.value_depth = 1;
        }
    } else if (prop == "C05") {
        w[O_IterOpen] = w[O_IterNext] = w[O_IterUpdate] = w[O_IterRemove] = w[O_IterClose] = w[O_IterAbort] = 0; w[O_PlantFail] = 16; c.content_clause = "unchanged";
        if (spec.run % 4 == 3) { c.storage_faults = true; w[O_PlantFail] = 3; }
    } else if (prop == "C06") {
        w[O_IterOpen] = 10; w[O_IterNext] = 26; w[O_IterUpdate] = 12; w[O_IterRemove] = 8; w[O_IterClose] = 5; w[O_IterAbort] = 4; w[O_LoopAddPacket] = 20; w[O_CifCreate] = 1; w[O_CifDestroy] = 0;
        w[O_FrameCreate] = 1; w[O_ContDestroy] = 1; w[O_LoopsAll] = 3; c.max_cifs = 2; c.value_depth = 1;
    } else if (prop == "C07") {
        w[O_SetValue] = 22; w[O_LoopAddItem] = 8; w[O_LoopAddPacket] = 16; w[O_GetValue] = 14; w[O_Walk] = 4; w[O_Dump] = 5; w[O_IterUpdate] = 6; w[O_IterOpen] = 4; w[O_IterNext] = 8;
        w[O_ContDestroy] = 1; w[O_LoopDestroy] = 1; w[O_RemoveItem] = 2; c.value_depth = 6; c.spill_num = 1; c.spill_den = 2; c.max_cifs = 2;
    } else if (prop == "C02" || prop == "C13") {
        w[O_CifDestroy] = 0; w[O_ContDestroy] = 1; w[O_LoopDestroy] = 1; w[O_SetValue] = 20; w[O_LoopAddPacket] = 16; w[O_FrameCreate] = 5; w[O_Checkpoint] = 2;
        c.final_checkpoint = true; c.write_version = prop == "C13" ? 1 : 2; c.boundary_bias = true; c.cif11_values = prop == "C13"; c.max_cifs = 2; c.min_ops = 6; c.max_ops = 30;
        c.write_faults = (spec.run % 5 == 4); c.content_clause = "source_changed";
    }
    return c;
}
RunResult eng_api_run_cfg(const RunSpec &spec, const ApiCfg &cfg) {
    ApiRun run(spec, cfg);
    return run.run();
}
RunResult eng_api_run(const RunSpec &spec) { return eng_api_run_cfg(spec, api_config_for(spec.prop, spec)); }
