// temporary stubs
#include "sim.hpp"
RunResult eng_walk_run(const RunSpec &) { RunResult r; return r; }
RunResult eng_mix_run(const RunSpec &) { RunResult r; return r; }
