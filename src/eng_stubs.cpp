// temporary stubs
#include "sim.hpp"
RunResult run_c11(const RunSpec &) { RunResult r; return r; }
RunResult run_c15(const RunSpec &) { RunResult r; return r; }
RunResult eng_value_run(const RunSpec &) { RunResult r; return r; }
RunResult eng_walk_run(const RunSpec &) { RunResult r; return r; }
RunResult eng_mix_run(const RunSpec &) { RunResult r; return r; }
