// eng_doc.cpp -- the doc engine: seeded documents served to cif_parse through the simulated input stream.
//   C01: well-formed documents x layouts x buffer knobs  -> exact content
//   C03: any bytes x options x callback policies x stream faults -> totality and callback contract
//   C08: outcome(D) == outcome(T(D)) for terminator rewriting, buffer knobs, padding
// (C11, C12, C15 live in eng_doc2.cpp.)
#include "doceng.hpp"
#include <sqlite3.h>
extern "C" {
#include "internal/ciftypes.h"
}

#define DVIOLATE(clause, sig, ...) throw Violation(std::string(prop) + "." + (clause), (sig), strprintf(__VA_ARGS__), -1)

// ------------------------------------------------------------------------------------------------ shared: document plans
struct DocPlan {
    DocCfg cfg; Doc doc; Layout lay; Knobs knobs; int n_elems = 0;
};
static int count_elems(const Doc &d) {
    int n = 0; std::function<void(const std::vector<DItem> &)> rec = [&](const std::vector<DItem> &v) { for (auto &i : v) { ++n; if (i.kind == D_FRAME) rec(i.items); } };
    for (auto &b : d.blocks) { ++n; rec(b.items); }
    return n;
}
static void apply_mods(Doc &d, const Mods &m) {
    int ord = 0;
    std::function<void(std::vector<DItem> &)> rec = [&](std::vector<DItem> &v) {
        for (size_t i = 0; i < v.size();) {
            int me = ord++;
            if (v[i].kind == D_FRAME) rec(v[i].items);
            if (m.simple.count(me)) { if (v[i].kind == D_SCALAR) v[i].value = simple_value((uint64_t) me); else if (v[i].kind == D_LOOP) { for (auto &row : v[i].packets) for (auto &x : row) x = simple_value((uint64_t) me); if (v[i].packets.size() > 1) v[i].packets.resize(1); } }
            if (m.off.count(me)) v.erase(v.begin() + (long) i); else ++i;
        }
    };
    for (size_t b = 0; b < d.blocks.size();) { int me = ord++; rec(d.blocks[b].items); if (m.off.count(me)) d.blocks.erase(d.blocks.begin() + (long) b); else ++b; }
}
static DocPlan make_doc_plan(const RunSpec &spec, const char *stream, int force_version = 0) {
    DocPlan p;
    Rng r(hmix(run_seed_of(spec), hstr(stream)));
    Rng kr(hmix(run_seed_of(spec), hstr("knobs")));
    p.cfg.version = force_version ? force_version : (r.chance(3, 4) ? 2 : 1);
    p.cfg.max_blocks = (int) r.range(1, 3); p.cfg.max_items = (int) r.range(1, 7); p.cfg.max_loop_names = (int) r.range(1, 4); p.cfg.max_packets = (int) r.range(1, 5);
    p.cfg.frames = r.chance(2, 3); p.cfg.magic11 = r.chance(1, 2);
    p.cfg.vals.max_depth = (int) r.range(0, 3); p.cfg.vals.max_members = (int) r.range(1, 5); p.cfg.vals.allow_long = r.chance(1, 5);
    p.cfg.vals.allow_composite = p.cfg.version >= 2;
    { Rng lr(hmix(run_seed_of(spec), hstr("long_tokens"))); p.cfg.long_tokens = lr.chance(1, 5); }   // names and codes at the length limits (own stream: older plans keep their shape)
    p.doc = gen_doc(r, p.cfg);
    if (r.chance(1, 60) && !p.doc.blocks.empty()) {
        // one token larger than the shipped scan buffer (131200 units): a multi-line value of 140k-260k units
        ustr big; size_t n = (size_t) r.range(140000, 260000);
        for (size_t i = 0; i < n; ++i) big += (i % 997 == 996) ? u'\n' : (char16_t) ('a' + i % 26);
        DItem it; it.kind = D_SCALAR; it.name = U("_big_value"); it.value = MValue::chr(big, true);
        p.doc.blocks[0].items.push_back(it);
        g_stats.inc("docs.with_huge_token");
    }
    p.n_elems = count_elems(p.doc);
    g_plan_n_ops = p.n_elems; g_plan_fault_ops.clear(); plan_ready();
    apply_mods(p.doc, spec.mods);
    Rng lr(hmix(run_seed_of(spec), hstr("layout")));
    p.lay = layout_doc(p.doc, lr, p.cfg);
    p.knobs = gen_knobs(kr, true);
    if (spec.mods.default_knobs) p.knobs = Knobs();
    return p;
}
static void cover_layout(const Layout &l, const Knobs &k) {
    static const char *const PN[] = { "pres.bare", "pres.squote", "pres.dquote", "pres.triple_squote", "pres.triple_dquote", "pres.text", "pres.text_folded", "pres.text_prefixed", "pres.text_folded_prefixed" };
    for (auto &t : l.toks) if (t.kind == T_VALUE || t.kind == T_KEY) g_stats.inc(PN[t.pres]);
    g_stats.inc("tokens", l.toks.size());
    const Tok *prev = NULL;
    for (auto &t : l.toks) { if (t.kind == T_WS) continue; if (prev) g_stats.cover(hmix(hmix((uint64_t) prev->kind * 16 + (uint64_t) prev->pres, (uint64_t) t.kind * 16 + (uint64_t) t.pres), 0x77)); prev = &t; }
    g_stats.cover(hmix(hstr("knob"), (k.scan_initial < 25 ? 0 : k.scan_initial < 401 ? 1 : k.scan_initial < 8001 ? 2 : 3) * 16 + (k.min_fill < 9 ? 0 : 1) * 4 + (k.read_buf < 65 ? 0 : k.read_buf < 4096 ? 1 : 2)));
}
static std::string snippet(const Layout &l, size_t max = 400) { ustr t = l.text.size() > max ? l.text.substr(0, max) : l.text; return u8(t); }

// ------------------------------------------------------------------------------------------------ C01
static RunResult run_c01(const RunSpec &spec) {
    const char *prop = "C01";
    RunResult res;
    DocPlan p = make_doc_plan(spec, "doc");
    res.n_ops = p.n_elems;
    p.knobs.apply();
    cover_layout(p.lay, p.knobs);
    std::vector<unsigned char> bytes = p.lay.utf8();
    ev("C01 v%d doc %zu bytes, %d elements, knobs %s", p.cfg.version, bytes.size(), p.n_elems, p.knobs.str().c_str());
    if (g_log.keep_text) g_log.add("text: " + snippet(p.lay, 200000));
    ParseOpts o; Rng orr(hmix(run_seed_of(spec), hstr("opts")));
    o.null_options = false; o.policy = 1; o.target = 1;
    StreamCfg sc; sc.chunk = orr.chance(1, 2) ? (size_t) orr.range(1, 200) : 0;
    ParseOutcome out = run_parse(bytes, o, sc, NULL);
    Knobs::reset();
    ev("cif_parse -> %s errors: %s", rc_name(out.rc), errs_str(out.errs).c_str());
    std::unique_ptr<Violation> bad;
    try {
        if (out.rc != CIF_OK) DVIOLATE("rc", strprintf("cif_parse:%s", rc_name(out.rc)), "parsing a well-formed CIF %s document returned %s (errors: %s); text: %s", p.cfg.version >= 2 ? "2.0" : "1.1", rc_name(out.rc), errs_str(out.errs).c_str(), snippet(p.lay).c_str());
        if (!out.errs.empty()) DVIOLATE("spurious_error", rc_name(out.errs[0].code), "parsing a well-formed CIF %s document reported %s; text: %s", p.cfg.version >= 2 ? "2.0" : "1.1", errs_str(out.errs).c_str(), snippet(p.lay).c_str());
        if (!out.cif) DVIOLATE("rc", "no_cif", "cif_parse returned CIF_OK without creating a CIF");
        std::vector<std::string> classify; g_classify_problems = &classify;
        MCif got = dump_cif(out.cif, prop), want = expected_model(p.doc);
        g_classify_problems = NULL;
        std::string a = canon(want), b = canon(got);
        if (a != b) DVIOLATE("content", strprintf("v%d", p.cfg.version), "parsed content differs from what the document denotes: %s; text: %s", first_diff(a, b).c_str(), snippet(p.lay).c_str());
        if (!classify.empty()) DVIOLATE("content", "number_classification", "%s; text: %s", classify[0].c_str(), snippet(p.lay).c_str());
    } catch (Violation &v) { g_classify_problems = NULL; bad.reset(new Violation(v)); }
    if (out.cif) { int rc = cif_destroy(out.cif); if (rc != CIF_OK && !bad) bad.reset(new Violation("C01.rc", "cif_destroy", "cif_destroy failed", -1)); }
    if (bad) throw *bad;
    g_stats.inc(p.cfg.version >= 2 ? "docs.cif20" : "docs.cif11");
    return res;
}

// ------------------------------------------------------------------------------------------------ C03
static std::vector<unsigned char> encode_as(const ustr &text, int enc, bool bom) {
    std::vector<unsigned char> o;
    auto put16 = [&](unsigned v, bool le) { if (le) { o.push_back(v & 0xff); o.push_back(v >> 8); } else { o.push_back(v >> 8); o.push_back(v & 0xff); } };
    auto put32 = [&](uint32_t v, bool le) { for (int i = 0; i < 4; ++i) o.push_back((unsigned char) (le ? (v >> (8 * i)) : (v >> (8 * (3 - i))))); };
    switch (enc) {
        case 1: case 2: if (bom) put16(0xfeff, enc == 1); for (char16_t c : text) put16(c, enc == 1); break;
        case 3: case 4: { if (bom) put32(0xfeff, enc == 3); for (size_t i = 0; i < text.size(); ++i) { uint32_t c = text[i]; if (c >= 0xd800 && c <= 0xdbff && i + 1 < text.size()) { c = 0x10000 + ((c - 0xd800) << 10) + (text[i + 1] - 0xdc00); ++i; } put32(c, enc == 3); } break; }
        case 5: for (char16_t c : text) o.push_back((unsigned char) (c < 0x100 ? c : '?')); break;
        default: if (bom) { o.push_back(0xef); o.push_back(0xbb); o.push_back(0xbf); } { std::vector<unsigned char> u = to_utf8(text); o.insert(o.end(), u.begin(), u.end()); } break;
    }
    return o;
}
void doc_corrupt(std::vector<unsigned char> &b, Rng &r, const Layout *lay) {
    if (b.empty()) { b.push_back((unsigned char) r.below(256)); return; }
    size_t pos = (size_t) r.below(b.size());
    if (lay && !lay->toks.empty() && r.chance(1, 2)) { const Tok &t = lay->toks[r.below(lay->toks.size())]; pos = std::min(b.size() - 1, r.chance(1, 2) ? t.start : (t.end ? t.end - 1 : 0)); }   // near token boundaries (offsets approximate for non-ASCII text)
    switch (r.below(10)) {
        case 9: {
            // an undecodable byte directly after a token (e.g. right behind the closing delimiter of a quoted string)
            static const unsigned char U8BAD[] = { 0xff, 0xc0, 0xfe, 0x80, 0xf8 };
            if (lay && !lay->toks.empty()) { const Tok &t = lay->toks[r.below(lay->toks.size())]; pos = std::min(b.size(), (size_t) t.end); }
            b.insert(b.begin() + (long) pos, U8BAD[r.below(sizeof U8BAD)]); g_stats.inc("fault.corrupt.bad_byte_after_token"); break;
        }
        case 7: case 8: {
            // a whole defective construct (the probes of the C12 check and relatives) spliced in between two tokens: several of them in one
            // document make the parser's recovery paths meet each other, which single-defect documents (C12) never do
            static const char *const P[] = { " loop_ ", " loop_ _e1 _e2 ", " _q 'abc def\n", " _m ['x''y'] ", " ] ", " } ", " _l [1 2 ", " _t {'a':1 zz 'b':2} ", " _t {:5 'b':2} ", " _t {ab:5 'b':2} ",
                " _t {\n;k\n;:5 'b':2} ", " _t {\n;k\x01\n;:5} ", " _t {'k\x01':5 'b':2} ", " _t {'a':} ", " _t {'a' 1} ", " _t {'a':1 'a':2} ", " stop_ ", " save_ ", " save_fr ", " data_ ", " global_ ", " _dup 1 _dup 2 ",
                " loop_ _a _a 1 2 ", " loop_ _a _b 1 ", " _v \n;unterminated text", " _v '''unterminated", " _ 5 ", " loop_ _ 1 ", " _v [ { ] } ", " _v {'a':[1 {'b':2 ] } ", " $frame_ref ", " _v 'a'b ", " _v \"x\"'y' " };
            if (lay && !lay->toks.empty()) { const Tok &t = lay->toks[r.below(lay->toks.size())]; pos = std::min(b.size(), (size_t) t.start); }
            const char *t = P[r.below(sizeof P / sizeof P[0])]; b.insert(b.begin() + (long) pos, (const unsigned char *) t, (const unsigned char *) t + strlen(t)); g_stats.inc("fault.corrupt.defective_construct"); break;
        }
        case 0: b[pos] ^= (unsigned char) (1u << r.below(8)); g_stats.inc("fault.corrupt.bitflip"); break;
        case 1: { static const unsigned char S[] = { 0, 1, 0x0b, 0x0c, 0x0d, 0x1a, 0x7f, 0x80, 0xc0, 0xed, 0xf8, 0xfe, 0xff, 0xae, 0xd2, 0xa0, 0xfd, '\'', '"', ';', '[', '{', ']', '}', ':', '\\', '#', '_', '$' }; b[pos] = S[r.below(sizeof S)]; g_stats.inc("fault.corrupt.replace"); break; }
        case 2: { size_t n = std::min(b.size() - pos, (size_t) r.range(1, 40)); b.erase(b.begin() + (long) pos, b.begin() + (long) (pos + n)); g_stats.inc("fault.corrupt.delete"); break; }
        case 3: { size_t n = std::min(b.size() - pos, (size_t) r.range(1, 60)); std::vector<unsigned char> seg(b.begin() + (long) pos, b.begin() + (long) (pos + n)); b.insert(b.begin() + (long) pos, seg.begin(), seg.end()); g_stats.inc("fault.corrupt.duplicate"); break; }
        case 4: { size_t from = (size_t) r.below(b.size()); size_t n = std::min(b.size() - from, (size_t) r.range(1, 60)); std::vector<unsigned char> seg(b.begin() + (long) from, b.begin() + (long) (from + n)); b.insert(b.begin() + (long) pos, seg.begin(), seg.end()); g_stats.inc("fault.corrupt.splice"); break; }
        case 5: b.resize(pos); g_stats.inc("fault.corrupt.cut"); break;
        default: { static const char *const T[] = { "data_", "save_", "loop_", "stop_", "global_", "\n;", "'''", "\"\"\"", "\r\n", "\r", "\xef\xbb\xbf", "\xed\xa0\x80", "#\\#CIF_2.0", "_x", " ? ", "{'k':", "[[", "\xc2\x85", "\xc2\x9f", "\x0c", "\x0b" }; const char *t = T[r.below(sizeof T / sizeof T[0])]; b.insert(b.begin() + (long) pos, (const unsigned char *) t, (const unsigned char *) t + strlen(t)); g_stats.inc("fault.corrupt.insert_token"); break; }
    }
}
static void gen_opts(ParseOpts &o, Rng &r) {
    static const int CIF2[] = { -1, 0, 0, 0, 1, 19, 20 }; o.prefer_cif2 = CIF2[r.below(7)];
    static const int FD[] = { -1, 0, 1, 1, 2 }; o.max_frame_depth = FD[r.below(5)];
    o.fold_mod = (int) r.range(-1, 1); o.prefix_mod = (int) r.range(-1, 1);
    // (the documentation allows 7-bit ASCII characters and C1 controls in both sets: bytes >= 0x80 are legitimate here)
    static const char *const XS[] = { NULL, NULL, "\v", "\f", "\v\f\x1c", "\x85", "\x1c\x80\x85\x9f" }; o.extra_ws = XS[r.below(7)]; o.extra_eol = XS[r.below(7)];
    // (ISO-8859-7, windows-1253, Shift_JIS: legacy code pages with unassigned byte values - the converter's "unassigned" signal, CIF_UNMAPPED_CHAR)
    static const char *const EN[] = { NULL, NULL, NULL, "ISO-8859-1", "UTF-16LE", "no-such-encoding", "UTF-8", "ISO-8859-7", "windows-1253", "Shift_JIS" }; o.default_encoding = EN[r.below(10)];
    o.force_default = r.chance(1, 5) ? 1 : 0;
    o.null_options = r.chance(1, 12);
    o.policy = (int) r.weighted({15, 35, 10, 40});
    if (o.policy == 3) { size_t n = (size_t) r.range(1, 6); for (size_t i = 0; i < n; ++i) o.policy_table.push_back((int) r.weighted({70, 12, 10, 8})); }
    o.target = (int) r.weighted({20, 55, 25});
    o.syntax_callbacks = r.chance(1, 3);
    if (r.chance(1, 3)) { o.hp.present = true; for (int k = 0; k < 11; ++k) if (r.chance(5, 6)) o.hp.resp[k].push_back(CIF_TRAVERSE_CONTINUE); o.hp.reenter = r.chance(1, 2); }
    if (o.null_options) { o = ParseOpts(); o.null_options = true; o.policy = 0; o.target = (int) r.weighted({20, 55, 25}); }
}
// after the parse the target must be consistent: dump, walk, write, modify, destroy
static int w_cont(void *, void *) { ++g_stats.events; return CIF_TRAVERSE_CONTINUE; }
static bool has_empty_loop(const MCont &c) { for (auto &l : c.loops) if (l.packets.empty()) return true; for (auto &f : c.frames) if (has_empty_loop(f)) return true; return false; }
static void check_usable(const char *prop, cif_tp *cif, uint64_t salt, bool parse_completed = false) {
    if (!cif) return;
    MCif m;
    try { m = dump_cif(cif, prop); }
    catch (Violation &v) {
        // the parser may legitimately leave invalid-but-consistent content (empty block code, invalid codes); only inconsistency counts
        throw Violation(std::string(prop) + ".usable", "dump:" + v.sig, "the CIF left by cif_parse cannot be read back consistently: " + v.detail, -1);
    }
    cif_handler_tp h = { (int (*)(cif_tp *, void *)) w_cont, (int (*)(cif_tp *, void *)) w_cont, (int (*)(cif_container_tp *, void *)) w_cont, (int (*)(cif_container_tp *, void *)) w_cont, (int (*)(cif_container_tp *, void *)) w_cont,
        (int (*)(cif_container_tp *, void *)) w_cont, (int (*)(cif_loop_tp *, void *)) w_cont, (int (*)(cif_loop_tp *, void *)) w_cont, (int (*)(cif_packet_tp *, void *)) w_cont, (int (*)(cif_packet_tp *, void *)) w_cont, NULL };
    // a parse that ran to completion (every error accepted) leaves a valid CIF: in particular no loop without packets, which the
    // data model does not allow and which cif_walk / cif_write reject (an aborted parse may leave the loop it was filling)
    if (parse_completed) for (auto &b : m.blocks) if (has_empty_loop(b)) DVIOLATE("usable", "empty_loop_left", "cif_parse returned CIF_OK but left a loop without packets in block %s", u8(b.code_orig).c_str());
    int rc = cif_walk(cif, &h, NULL);
    if (!rc_defined(rc)) DVIOLATE("usable", "cif_walk", "cif_walk on the parsed CIF returned undefined code %d", rc);
    if (parse_completed && rc != CIF_OK) DVIOLATE("usable", strprintf("cif_walk:%s", rc_name(rc)), "cif_parse returned CIF_OK but cif_walk over the resulting CIF returns %s", rc_name(rc));
    SimOut so; FILE *f = so.open(); rc = cif_write(f, NULL, cif); fclose(f);
    if (!rc_defined(rc)) DVIOLATE("usable", "cif_write", "cif_write on the parsed CIF returned undefined code %d", rc);
    // a new block with a fresh code and one item must be creatable and visible
    ustr code = U(strprintf("fresh_%llu", (unsigned long long) (salt % 100000)).c_str());
    cif_block_tp *b = NULL;
    rc = cif_create_block(cif, UC(code), &b);
    if (rc == CIF_DUP_BLOCKCODE) return;
    if (rc != CIF_OK || !b) DVIOLATE("usable", strprintf("cif_create_block:%s", rc_name(rc)), "cannot add a block to the CIF left by cif_parse: %s", rc_name(rc));
    cif_value_tp *v = NULL; rc = cif_value_create(CIF_UNK_KIND, &v); if (rc == CIF_OK) rc = cif_value_copy_char(v, UC(U("x")));
    int r2 = cif_container_set_value(b, UC(U("_fresh_item")), v); cif_value_free(v);
    cif_value_tp *back = NULL; int r3 = cif_container_get_value(b, UC(U("_fresh_item")), &back);
    bool same = false; if (r3 == CIF_OK && back) { same = snapshot_value(back).text == U("x"); }
    if (back) cif_value_free(back);
    cif_container_free(b);
    if (r2 != CIF_OK || r3 != CIF_OK || !same) DVIOLATE("usable", strprintf("set_value:%s/%s", rc_name(r2), rc_name(r3)), "cannot store and read back an item in the CIF left by cif_parse (%s / %s)", rc_name(r2), rc_name(r3));
    if (sqlite3_get_autocommit(cif->db) == 0) DVIOLATE("usable", "transaction_open", "cif_parse left a transaction open on the target CIF");
}
static RunResult run_c03(const RunSpec &spec) {
    const char *prop = "C03";
    RunResult res;
    Rng r(hmix(run_seed_of(spec), hstr("c03")));
    Rng fr(hmix(run_seed_of(spec), hstr("faults")));
    DocPlan p = make_doc_plan(spec, "doc");
    res.n_ops = p.n_elems;
    std::vector<unsigned char> bytes;
    unsigned src = (unsigned) r.below(100);
    const Layout *lay = &p.lay;
    if (src < 70) bytes = p.lay.utf8();
    else if (src < 82) { bytes = encode_as(p.lay.text, (int) r.range(0, 5), r.chance(2, 3)); lay = NULL; }
    else if (src < 92) { size_t n = r.chance(1, 10) ? (size_t) r.range(1000, 9000) : (size_t) r.below(300); for (size_t i = 0; i < n; ++i) bytes.push_back((unsigned char) (r.chance(3, 4) ? 0x20 + r.below(0x5f) : r.below(256))); lay = NULL; }
    else { // one huge token
        std::string s = "#\\#CIF_2.0\ndata_big _x "; bytes.assign(s.begin(), s.end()); size_t n = (size_t) r.range(140000, r.chance(1, 4) ? 1100000 : 300000); unsigned kind = (unsigned) r.below(3);
        if (kind == 1) bytes.push_back('\'');
        if (kind == 2) { bytes.push_back('\n'); bytes.push_back(';'); }
        for (size_t i = 0; i < n; ++i) bytes.push_back((unsigned char) ('a' + i % 26));
        if (kind == 1 && r.chance(2, 3)) bytes.push_back('\'');
        if (kind == 2 && r.chance(2, 3)) { bytes.push_back('\n'); bytes.push_back(';'); }
        bytes.push_back('\n'); lay = NULL;
    }
    int ncor = spec.mods.no_faults ? 0 : (int) fr.weighted({30, 30, 20, 10, 6, 4});
    for (int i = 0; i < ncor; ++i) doc_corrupt(bytes, fr, lay);
    ParseOpts o; gen_opts(o, r);
    StreamCfg sc; sc.chunk = r.chance(1, 2) ? (size_t) r.range(1, 300) : 0;
    bool stream_fault = false;
    if (!spec.mods.no_faults && fr.chance(1, 4)) { stream_fault = true; if (fr.chance(1, 2)) { sc.eio_at = (long) fr.below(bytes.size() + 1); g_stats.inc("fault.stream_eio.configured"); } else { sc.eof_at = (long) fr.below(bytes.size() + 1); g_stats.inc("fault.stream_trunc.configured"); } }
    Rng kr(hmix(run_seed_of(spec), hstr("knobs2")));
    Knobs k = gen_knobs(kr, true);
    if (spec.mods.default_knobs) k = Knobs();
    k.apply();
    ev("C03 %zu bytes src=%u corruptions=%d opts{%s} stream{chunk=%zu eio=%ld eof=%ld} knobs %s", bytes.size(), src, ncor, o.str().c_str(), sc.chunk, sc.eio_at, sc.eof_at, k.str().c_str());
    if (g_log.keep_text) { std::string s; for (size_t i = 0; i < bytes.size() && s.size() < 700; ++i) { unsigned char ch = bytes[i]; if (ch == '\n') s += "\\n"; else if (ch >= 0x20 && ch < 0x7f && ch != '\\') s += (char) ch; else s += strprintf("\\x%02x", ch); } ev("bytes: %s", s.c_str()); }
    // a pre-existing target for mode 2
    cif_tp *existing = NULL;
    if (o.target == 2) { if (cif_create(&existing) != CIF_OK) existing = NULL; else { cif_block_tp *b = NULL; if (cif_create_block(existing, UC(code_pool()[r.below(code_pool().size())].variants[0]), &b) == CIF_OK) { cif_value_tp *v = NULL; if (cif_value_create(CIF_NA_KIND, &v) == CIF_OK) { int q = cif_container_set_value(b, UC(item_pool()[0].variants[0]), v); (void) q; cif_value_free(v); } cif_container_free(b); } } if (!existing) o.target = 1; }
    ParseOutcome out = run_parse(bytes, o, sc, existing);
    ev("cif_parse -> %s, %zu errors (%s), first_reject=%d, callbacks=%ld", rc_name(out.rc), out.errs.size(), errs_str(out.errs).c_str(), out.first_reject, out.cb_calls);
    g_stats.cover(hmix(hmix((uint64_t) (out.errs.empty() ? 0 : out.errs[0].code), (uint64_t) (out.rc + 7)), hmix((uint64_t) o.policy * 8 + (uint64_t) o.target * 2 + (stream_fault ? 1 : 0), (uint64_t) (o.prefer_cif2 + 3) * 4 + (uint64_t) (o.max_frame_depth + 1))));
    std::unique_ptr<Violation> bad;
    try {
        for (auto &e : out.errs) if (e.line < 1) DVIOLATE("line", rc_name(e.code), "error callback invoked with line %zu for %s", e.line, rc_name(e.code));
        if (!(out.rc == CIF_OK || (out.first_reject != 0 && out.rc == out.first_reject) || rc_defined(out.rc))) DVIOLATE("rc", "undefined_code", "cif_parse returned %d, which is neither CIF_OK, nor the callback's value, nor a defined code", out.rc);
        if (out.first_reject != 0 && out.rc != out.first_reject) DVIOLATE("rc", strprintf("reject:%s->%s", rc_name(out.first_reject), rc_name(out.rc)), "the error callback rejected with %d but cif_parse returned %d", out.first_reject, out.rc);
        if (o.policy == 1 || o.policy == 3) {
            bool exempt = !o.options_valid() || out.stream_fault_fired || out.rc == CIF_MEMORY_ERROR;
            if (out.rc != CIF_OK && out.errs.empty() && !exempt) DVIOLATE("silent_failure", rc_name(out.rc), "cif_parse failed with %s without having reported any error to the callback (options valid, no I/O fault)", rc_name(out.rc));
        }
        check_usable(prop, out.cif, spec.run, out.rc == CIF_OK && o.target != 2);
    } catch (Violation &v) { bad.reset(new Violation(v)); }
    if (out.cif) { int rc = cif_destroy(out.cif); if (rc != CIF_OK && !bad) bad.reset(new Violation("C03.usable", "cif_destroy", strprintf("cif_destroy -> %s", rc_name(rc)), -1)); }
    else if (existing) { int rc = cif_destroy(existing); (void) rc; }
    if (bad) { Knobs::reset(); throw *bad; }
    // die == first error of an all-accepting parse (same bytes, same options; fresh targets; no stream fault)
    if (!stream_fault && o.options_valid() && (spec.run % 2 == 0 || !spec.mods.off.empty())) {
        ParseOpts a = o, d = o; a.null_options = d.null_options = false; a.policy = 1; d.policy = 0; a.target = d.target = (o.target == 0 ? 0 : 1);
        ParseOutcome oa = run_parse(bytes, a, sc, NULL), od = run_parse(bytes, d, sc, NULL);
        int want = oa.errs.empty() ? oa.rc : oa.errs[0].code;
        ev("die-vs-accept: accepting parse first error %s rc %s; default handler rc %s", oa.errs.empty() ? "-" : rc_name(oa.errs[0].code), rc_name(oa.rc), rc_name(od.rc));
        if (oa.cif) { int rc = cif_destroy(oa.cif); (void) rc; }
        if (od.cif) { int rc = cif_destroy(od.cif); (void) rc; }
        if (od.rc != want && !(od.rc == CIF_MEMORY_ERROR || oa.rc == CIF_MEMORY_ERROR)) { Knobs::reset(); DVIOLATE("die_equals_first", strprintf("%s!=%s", rc_name(od.rc), rc_name(want)), "with the default (abort) error handler cif_parse returned %s, an all-accepting parse of the same input first reports %s", rc_name(od.rc), rc_name(want)); }
    }
    Knobs::reset();
    return res;
}

// ------------------------------------------------------------------------------------------------ C08
struct Outcome { int rc; std::vector<std::pair<int, size_t>> errs; std::string dump; bool dump_ok = true; std::string dump_problem; };
static Outcome observe(const char *prop, const std::vector<unsigned char> &bytes, const ParseOpts &o, const StreamCfg &sc, const Knobs &k) {
    Outcome oc;
    k.apply();
    ParseOutcome out = run_parse(bytes, o, sc, NULL);
    Knobs::reset();
    oc.rc = out.rc;
    for (auto &e : out.errs) oc.errs.push_back({e.code, e.line});
    if (out.cif) {
        try { oc.dump = canon(dump_cif(out.cif, prop)); } catch (Violation &v) { oc.dump_ok = false; oc.dump_problem = v.detail; }
        int rc = cif_destroy(out.cif); (void) rc;
    }
    return oc;
}
static ustr rewrite_eol(const ustr &t, int mode, Rng &r) {
    ustr o; size_t n_nl = 0;
    for (char16_t c : t) {
        if (c != '\n') { o += c; continue; }
        int m = mode == 3 ? (int) r.below(3) : mode;
        if (mode == 4) m = (n_nl++ % 2 == 0) ? 1 : 0;      // CR LF and LF in turn: every blank line is a CR LF pair followed by a lone LF
        // a lone LF directly after a lone CR would read as one CR LF terminator: that is a different document, not a restyling
        if (m == 0 && !o.empty() && o.back() == u'\r') m = 1;
        if (m == 0) o += u'\n'; else if (m == 1) o += U("\r\n"); else o += u'\r';
    }
    return o;
}
static RunResult run_c08(const RunSpec &spec) {
    const char *prop = "C08";
    RunResult res;
    DocPlan p = make_doc_plan(spec, "doc");
    res.n_ops = p.n_elems;
    Rng r(hmix(run_seed_of(spec), hstr("c08")));
    ustr base = p.lay.text;
    // 30 %: a structural defect so that the error sequence is not empty (delete or duplicate one token)
    std::vector<Tok> toks = p.lay.toks;
    if (r.chance(3, 10) && toks.size() > 3 && !spec.mods.no_faults) {
        std::vector<size_t> cand; for (size_t i = 0; i < toks.size(); ++i) if (toks[i].kind != T_WS && toks[i].kind != T_MAGIC) cand.push_back(i);
        if (!cand.empty()) {
            const Tok &t = toks[cand[r.below(cand.size())]];
            if (r.chance(1, 2)) base.erase(t.start, t.end - t.start); else base.insert(t.end, U(" ") + base.substr(t.start, t.end - t.start));
            toks.clear();   // offsets are stale now: padding is inserted before the first token only
            g_stats.inc("c08.defective_base");
        }
    }
    // a quarter of the documents end with a text field made of blank lines: under the alternating CR LF / LF restyling every refill
    // boundary inside it separates some combination of CR, LF, LF (terminator pairs split across fills, fills holding a lone LF)
    bool blank_probe = false;
    if (!p.doc.blocks.empty() && r.chance(1, 4)) { base += U("\n_c08_blank_lines\n;") + ustr((size_t) r.range(30, 300), u'\n') + U(";\n"); blank_probe = true; g_stats.inc("c08.blank_line_probe"); }
    ParseOpts o; o.policy = 1; o.target = 1;
    if (p.cfg.version < 2) { o.fold_mod = (int) r.range(-1, 1); o.prefix_mod = (int) r.range(-1, 1); }
    o.max_frame_depth = r.chance(1, 4) ? -1 : 1;
    StreamCfg sc;
    Outcome ref = observe(prop, to_utf8(base), o, sc, Knobs());
    ev("C08 base v%d %zu units: rc %s, %zu errors, dump %016llx", p.cfg.version, base.size(), rc_name(ref.rc), ref.errs.size(), (unsigned long long) hstr(ref.dump.c_str()));
    if (g_log.keep_text) g_log.add("text: " + u8(base.substr(0, 200000)));
    if (!ref.dump_ok) DVIOLATE("content", "base_dump", "the baseline parse result cannot be read back: %s", ref.dump_problem.c_str());
    int nt = (int) r.range(3, 6);
    for (int t = 0; t < nt; ++t) {
        int kind = (int) r.weighted({30, 40, 15, 15});       // 0 eol, 1 knobs, 2 padding, 3 eol+knobs
        if (spec.mods.default_knobs && (kind == 1)) kind = 0;
        ustr text = base; Knobs k; StreamCfg sc2; long shift_from = -1, shift_by = 0; std::string what;
        if (blank_probe && kind != 2 && r.chance(1, 2)) kind = 3;
        if (kind == 0 || kind == 3) { int mode = (int) r.range(1, 3); if (blank_probe && r.chance(1, 2)) mode = 4; text = rewrite_eol(text, mode, r); what += strprintf("eol%d ", mode); }
        if ((kind == 1 || kind == 3) && !spec.mods.default_knobs) { k = gen_knobs(r, false); sc2.chunk = r.chance(1, 2) ? (size_t) r.range(1, 100) : 0; what += "knobs{" + k.str() + "} "; }
        if (kind == 2) {
            // insert comment-only lines at a line start inside an insignificant whitespace run
            std::vector<size_t> spots;
            for (auto &tk : toks) if (tk.kind == T_WS) for (size_t i = tk.start; i < tk.end; ++i) if (base[i] == '\n' && i + 1 <= tk.end) spots.push_back(i + 1);
            if (spots.empty()) { if (toks.empty()) { } what += "pad(none) "; }
            else {
                size_t at = spots[r.below(spots.size())];
                long klines = r.chance(1, 5) ? (long) r.range(40, 1400) : (long) r.range(1, 12);
                ustr pad; for (long i = 0; i < klines; ++i) pad += r.chance(1, 2) ? U("# padding comment line ..........................................................................\n") : U("   \t \n");
                text.insert(at, pad);
                shift_from = 1; for (size_t i = 0; i < at; ++i) if (base[i] == '\n') ++shift_from;
                shift_by = klines; what += strprintf("pad(%ld lines at line %ld) ", klines, shift_from);
            }
        }
        Outcome got = observe(prop, to_utf8(text), o, sc2, k);
        ev("T%d %s-> rc %s, %zu errors, dump %016llx", t, what.c_str(), rc_name(got.rc), got.errs.size(), (unsigned long long) hstr(got.dump.c_str()));
        g_stats.cover(hmix(hmix(hstr("c08"), (uint64_t) kind), hmix((uint64_t) (k.scan_initial < 25 ? 0 : k.scan_initial < 401 ? 1 : 2) * 4 + (k.read_buf < 65 ? 0 : 1), (uint64_t) (ref.errs.empty() ? 0 : ref.errs[0].first))));
        std::string tsig = kind == 0 ? "eol" : kind == 1 ? "knobs" : kind == 2 ? "pad" : "eol+knobs";
        if (got.rc != ref.rc) DVIOLATE("rc", tsig, "parse result code changed from %s to %s under transformation %s; text: %s", rc_name(ref.rc), rc_name(got.rc), what.c_str(), u8(base.substr(0, 300)).c_str());
        std::vector<std::pair<int, size_t>> want = ref.errs;
        if (shift_from >= 0) for (auto &e : want) if ((long) e.second >= shift_from) e.second += (size_t) shift_by;
        if (got.errs != want) {
            std::string a, b; for (size_t i = 0; i < want.size() && i < 6; ++i) a += strprintf("%s@%zu ", rc_name(want[i].first), want[i].second); for (size_t i = 0; i < got.errs.size() && i < 6; ++i) b += strprintf("%s@%zu ", rc_name(got.errs[i].first), got.errs[i].second);
            DVIOLATE("errors", tsig, "error sequence changed under transformation %s: expected [%s] observed [%s]; text: %s", what.c_str(), a.c_str(), b.c_str(), u8(base.substr(0, 300)).c_str());
        }
        if (!got.dump_ok) DVIOLATE("content", tsig + ":dump", "the transformed parse result cannot be read back: %s", got.dump_problem.c_str());
        if (got.dump != ref.dump) DVIOLATE("content", tsig, "stored content changed under transformation %s: %s; text: %s", what.c_str(), first_diff(ref.dump, got.dump).c_str(), u8(base.substr(0, 300)).c_str());
    }
    return res;
}

extern RunResult run_c11(const RunSpec &spec);
extern RunResult run_c12(const RunSpec &spec);
extern RunResult run_c15(const RunSpec &spec);
RunResult eng_doc_run(const RunSpec &spec) {
    if (spec.prop == "C01") return run_c01(spec);
    if (spec.prop == "C03") return run_c03(spec);
    if (spec.prop == "C08") return run_c08(spec);
    if (spec.prop == "C11") return run_c11(spec);
    if (spec.prop == "C12") return run_c12(spec);
    if (spec.prop == "C15") return run_c15(spec);
    RunResult r; return r;
}
