// sim.hpp -- core of cifsim: PRNG, hashing, event log, violations, seam interfaces, run context.
// One integer (VERIF_SEED) decides everything: run_seed = H(seed, property, run index); every choice is drawn from
// sub-streams of run_seed.  Logging never draws from a PRNG and never reads a clock.
#pragma once
#include <cstdint>
#include <cstdio>
#include <cstdlib>
#include <cstring>
#include <cstdarg>
#include <string>
#include <vector>
#include <map>
#include <set>
#include <unordered_set>
#include <unordered_map>
#include <functional>
#include <algorithm>
#include <memory>
#include <optional>
#include <unicode/ustring.h>

extern "C" {
#include "cif.h"
}

typedef std::u16string ustr;

// ----------------------------------------------------------------------------------------------- hashing / PRNG
static inline uint64_t splitmix64(uint64_t &x) {
    uint64_t z = (x += 0x9e3779b97f4a7c15ULL);
    z = (z ^ (z >> 30)) * 0xbf58476d1ce4e5b9ULL;
    z = (z ^ (z >> 27)) * 0x94d049bb133111ebULL;
    return z ^ (z >> 31);
}
static inline uint64_t hmix(uint64_t a, uint64_t b) {
    uint64_t x = a ^ (b + 0x9e3779b97f4a7c15ULL + (a << 6) + (a >> 2));
    return splitmix64(x);
}
static inline uint64_t hstr(const char *s) {
    uint64_t h = 1469598103934665603ULL;
    for (; *s; ++s) { h ^= (unsigned char) *s; h *= 1099511628211ULL; }
    return h;
}
static inline uint64_t hbytes(const void *p, size_t n, uint64_t h = 1469598103934665603ULL) {
    const unsigned char *c = (const unsigned char *) p;
    for (size_t i = 0; i < n; ++i) { h ^= c[i]; h *= 1099511628211ULL; }
    return h;
}

struct Rng {
    uint64_t s[4];
    Rng() { seed(1); }
    explicit Rng(uint64_t x) { seed(x); }
    void seed(uint64_t x) { for (int i = 0; i < 4; ++i) s[i] = splitmix64(x); }
    static inline uint64_t rotl(uint64_t x, int k) { return (x << k) | (x >> (64 - k)); }
    uint64_t next() {
        uint64_t r = rotl(s[1] * 5, 7) * 9, t = s[1] << 17;
        s[2] ^= s[0]; s[3] ^= s[1]; s[1] ^= s[2]; s[0] ^= s[3]; s[2] ^= t; s[3] = rotl(s[3], 45);
        return r;
    }
    // uniform in [0, n)
    uint64_t below(uint64_t n) { return n ? next() % n : 0; }
    // uniform in [lo, hi]
    long range(long lo, long hi) { return lo + (long) below((uint64_t) (hi - lo + 1)); }
    bool chance(unsigned num, unsigned den) { return below(den) < num; }
    template <class T> const T &pick(const std::vector<T> &v) { return v[below(v.size())]; }
    // weighted pick: returns index
    size_t weighted(const std::vector<unsigned> &w) {
        uint64_t tot = 0; for (unsigned x : w) tot += x;
        if (!tot) return 0;
        uint64_t r = below(tot);
        for (size_t i = 0; i < w.size(); ++i) { if (r < w[i]) return i; r -= w[i]; }
        return w.size() - 1;
    }
};

// ----------------------------------------------------------------------------------------------- utf-16 helpers
std::string u8(const ustr &s);                 // printable ASCII with \uXXXX escapes (for logs / replay text)
std::string u8(const UChar *s);
ustr U(const char *ascii);                     // ASCII/escape-free literal to ustr
static inline const UChar *UC(const ustr &s) { return (const UChar *) s.c_str(); }
ustr from_uchar(const UChar *s);               // NUL-terminated UChar -> ustr ("" for NULL)
// a malloc'ed (library-domain) NUL-terminated copy, suitable for functions that take ownership
UChar *lib_ustrdup(const ustr &s);
std::string strprintf(const char *fmt, ...) __attribute__((format(printf, 1, 2)));

// ----------------------------------------------------------------------------------------------- violations
struct Violation {
    std::string clause;   // e.g. "C04.rc"
    std::string sig;      // clause-specific discriminator (stable across shrinking): function + expected/observed ...
    std::string detail;   // free text
    int op_index;
    Violation(std::string c, std::string s, std::string d, int op = -1)
        : clause(std::move(c)), sig(std::move(s)), detail(std::move(d)), op_index(op) {}
};

// ----------------------------------------------------------------------------------------------- statistics
struct Stats {
    std::map<std::string, uint64_t> counters;          // named counters (faults fired/configured, probes, ...)
    std::unordered_set<uint64_t> distinct;              // "distinct non-trivial" measure (hashes), see evidence rule
    std::vector<uint64_t> pending_distinct;             // not yet reported to the parent
    uint64_t events = 0;                                // "simulated time": API calls + callbacks + seam calls
    void inc(const std::string &k, uint64_t n = 1) { counters[k] += n; }
    void cover(uint64_t h) { if (distinct.insert(h).second) pending_distinct.push_back(h); }
};
extern Stats g_stats;

// ----------------------------------------------------------------------------------------------- event log
struct EventLog {
    uint64_t hash = 1469598103934665603ULL;
    uint64_t count = 0;
    bool keep_text = false;
    FILE *side = NULL;         // verbose child runs also stream the log to a file, so that it survives a crash
    std::vector<std::string> text;
    void reset(bool keep) { hash = 1469598103934665603ULL; count = 0; keep_text = keep; text.clear(); }
    void add(const std::string &s) {
        hash = hbytes(s.data(), s.size(), hash); hash = hbytes("\n", 1, hash); ++count; ++g_stats.events;
        if (keep_text) { text.push_back(s); if (side) { fputs(s.c_str(), side); fputc('\n', side); fflush(side); } }
    }
};
extern EventLog g_log;
void ev(const char *fmt, ...) __attribute__((format(printf, 1, 2)));

// ----------------------------------------------------------------------------------------------- seams
// (1) libcif allocator (link-time redirected: malloc/calloc/realloc/strdup/free in the libcif objects)
extern "C" {
void *cifsim_malloc(size_t n);
void *cifsim_calloc(size_t a, size_t b);
void *cifsim_realloc(void *p, size_t n);
char *cifsim_strdup(const char *s);
void cifsim_free(void *p);
}
struct AllocSeam {
    bool armed = false;      // count + maybe fail only while armed
    long fail_at = 0;        // 1-based ordinal of the allocation (while armed) that returns NULL; 0 = none
    long count = 0;          // allocations seen while armed
    bool fired = false;
    long live_blocks();      // currently live libcif-domain blocks
    void arm(long fail_index) { armed = true; fail_at = fail_index; count = 0; fired = false; n_fire_ra = 0; fire_exec_sql[0] = 0; }
    void disarm() { armed = false; fail_at = 0; }
    void *fire_ra[24]; int n_fire_ra = 0;          // call chain of the last injected failure
    char fire_exec_sql[40] = {0};                  // the SQL text, if that failure hit inside a libcif sqlite3_exec() (transaction control)
    std::string describe_fire();                   // (slow; violation path only)
    std::string describe_live(size_t max = 4);   // addresses -> symbolised allocation sites (slow; violation path only)
};
extern AllocSeam g_lalloc;   // libcif heap
extern AllocSeam g_salloc;   // SQLite heap (sqlite3_mem_methods wrapper)
long sqlite_live_blocks();
// libcif's calls of sqlite3_exec() are routed here (objcopy): the simulator knows which statement text is being executed
extern const char *g_exec_sql;
// Transaction monitor shared by the fault-enumeration workloads (C17): after an attempt during which an allocation failed,
// no transaction may be left open behind the caller's back.  One recognised, recorded design limitation is handled apart:
// when the failed allocation hit the compilation of the library's own ROLLBACK / RELEASE / ... statement, the violation is
// deferred to the end of the run (signature tx_control_oom:<statement>) and the harness rolls back itself so that the run
// can go on and still find other violations.
struct sqlite3;
struct TxMonitor {
    std::unique_ptr<Violation> deferred;
    // db: the connection of a managed CIF on which no iterator is open
    void check(const std::string &prop, const char *fn, int rc, sqlite3 *db, const char *which, bool sq, long k);
    void finish() { if (deferred) { Violation v = *deferred; deferred.reset(); throw v; } }
};
static inline void lib_free(void *p) { cifsim_free(p); }

// (2) simulated disk (sqlite3_vfs "cifsim"), page-cache knob, lookaside knob
struct DiskSeam {
    // fault plan for the *current op*: the n-th (1-based) VFS call of kind K while armed fails with code C
    bool armed = false;
    int fail_kind = 0;       // 0 none, 1 write, 2 read, 3 truncate, 4 open, 5 sync, 6 filesize, 7 any
    long fail_at = 0;
    int fail_code = 0;       // SQLITE_IOERR_WRITE, SQLITE_FULL, ...
    bool sticky = false;     // once fired, every later call of that kind fails too (dead device) while armed
    long count = 0;
    bool fired = false;
    // knobs applied to every connection opened afterwards
    int cache_pages = 0;     // 0 = SQLite default
    bool no_lookaside = false;
    // counters (per run)
    long n_open = 0, n_read = 0, n_write = 0, n_trunc = 0, n_sync = 0, n_delete = 0;
    void arm(int kind, long at, int code, bool st) { armed = true; fail_kind = kind; fail_at = at; fail_code = code; sticky = st; count = 0; fired = false; }
    void disarm() { armed = false; fail_kind = 0; fail_at = 0; }
    void reset_run();        // drop all files, zero counters
    size_t live_files();
};
extern DiskSeam g_disk;
void seams_global_init();    // sqlite3_config (allocator, vfs), warm up SQLite + ICU; call once per process
void seams_seed_vfs(uint64_t seed);  // xRandomness stream

// (3) byte streams
struct SimIn {
    std::vector<unsigned char> data;
    size_t pos = 0;
    size_t chunk = 0;        // max bytes per underlying read (0 = unlimited)
    long eio_at = -1;        // return -1/EIO once the cursor reaches this byte offset (sticky)
    long eof_at = -1;        // premature EOF at this byte offset
    long reads = 0, reads_after_end = 0;
    bool ended = false, eio_fired = false, eof_fired = false;
    long livelock_budget = 10000;
    FILE *open();            // fopencookie; caller fcloses
};
struct SimOut {
    std::vector<unsigned char> data;
    size_t max_accept = 0;   // accept at most this many bytes per write request (0 = all): short writes
    long err_at = -1;        // once this many bytes were accepted, writes fail with ENOSPC (sticky)
    bool err_fired = false;
    long writes = 0;
    FILE *open();
};
struct LivelockAbort { std::string what; };   // thrown by... nothing: the cookie cannot throw through C; see seams.cpp
extern bool g_livelock_tripped;               // set by SimIn when the budget is exhausted; the harness _exits(78)

// (4) environment
struct EnvSeam {
    int locale = 0;          // 0 "C", 1 "C.utf8", 2 "POSIX"
    int rounding = 0;        // 0 nearest, 1 up, 2 down, 3 zero
    int converter = 0;       // 0 leave default, 1 UTF-8, 2 ISO-8859-1, 3 US-ASCII, 4 windows-1252
    void apply();
    void reset();
    static std::string cur_locale();
    static int cur_rounding();
};
extern EnvSeam g_env;

// (5) buffer knobs + probes (hooks in /repo under CIF_API_VERIF)
extern "C" {
extern size_t cif_verif_buf_size_initial, cif_verif_buf_min_fill, cif_verif_read_buffer_size;
extern unsigned long cif_verif_probe[16];
}
struct Knobs {
    size_t scan_initial = 64 * 2050, min_fill = 2050, read_buf = 4096;
    void apply() const { cif_verif_buf_size_initial = scan_initial; cif_verif_buf_min_fill = min_fill; cif_verif_read_buffer_size = read_buf; }
    static void reset() { Knobs k; k.apply(); }
    bool is_default() const { return scan_initial == 64 * 2050 && min_fill == 2050 && read_buf == 4096; }
    std::string str() const { return strprintf("scan=%zu fill=%zu read=%zu", scan_initial, min_fill, read_buf); }
};
void probes_collect();       // add cif_verif_probe[] into g_stats and zero them

// ----------------------------------------------------------------------------------------------- plan / replay control
// A plan is regenerated from (property, seed, run, tier) by pure PRNG draws; a replay file may disable ops, strip
// faults and simplify; all of that is expressed here so that generation code can consult it.
struct Mods {
    std::set<int> off;           // op indices disabled (ddmin)
    std::set<int> nofault;       // op indices whose attached faults are dropped
    bool no_faults = false;      // drop every fault
    bool default_knobs = false;  // shipped buffer sizes
    bool default_env = false;    // C locale, nearest, default converter
    bool no_spill = false;       // default page cache
    std::set<int> simple;        // op indices whose operands are simplified (engine-specific)
    int max_ops = -1;            // truncate the plan
    std::string str() const;
    bool parse_kv(const std::string &k, const std::string &v);
};

struct RunSpec {
    std::string prop;
    uint64_t seed = 1;
    uint64_t run = 0;
    std::string tier = "quick";
    Mods mods;
    bool verbose = false;        // keep event text
};

struct RunResult {
    bool violated = false;
    std::string clause, sig, detail;
    int op_index = -1;
    int n_ops = 0;               // number of ops in the (unmodified) plan -- the shrinker's universe
    std::vector<int> fault_ops;  // indices of ops that carry faults
    uint64_t fingerprint = 0;
    uint64_t events = 0;
    std::string sample;          // human-readable rendering (first runs only / verbose)
};

// set by the engine as soon as the plan exists, so that the shrinker knows its universe even when the run ends in a violation
extern int g_plan_n_ops; extern std::vector<int> g_plan_fault_ops;
void plan_ready();   // engines call this right after plan generation (reports the plan size early, so a later crash can still be minimised)
// engines implement this; must be a pure function of spec (+ library code)
typedef RunResult (*EngineFn)(const RunSpec &spec);
EngineFn engine_for(const std::string &prop);
struct PropInfo { const char *id; const char *engine; const char *level; long quick_runs; long thorough_runs; int quick_cap_s; int thorough_cap_s; const char *rule; };
const PropInfo *prop_info(const std::string &prop);
extern const PropInfo g_props[];

// helpers shared by engines
uint64_t run_seed_of(const RunSpec &s);
#define VIOLATE(clause, sig, ...) throw Violation((clause), (sig), strprintf(__VA_ARGS__))
const char *rc_name(int rc);
