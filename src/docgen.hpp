// docgen.hpp -- seeded generator of abstract CIF documents and of concrete layouts of them (CIF 2.0 and CIF 1.1),
// following Appendix B of DESIGN.md: only presentations that are provably admissible are emitted.
#pragma once
#include "model.hpp"
#include "gen.hpp"

enum DKind { D_SCALAR, D_LOOP, D_FRAME };
struct DItem {
    DKind kind = D_SCALAR;
    ustr name;                          // scalar: data name as written
    MValue value;                       // scalar
    std::vector<ustr> names;            // loop header
    std::vector<std::vector<MValue>> packets;   // loop body, row major
    ustr code;                          // frame code
    std::vector<DItem> items;           // frame content
};
struct DBlock { ustr code; std::vector<DItem> items; };
struct Doc { int version = 2; std::vector<DBlock> blocks; };

enum TokKind { T_MAGIC, T_BLOCK, T_FRAME, T_FRAME_END, T_LOOP_KW, T_NAME, T_VALUE, T_LIST_OPEN, T_LIST_CLOSE, T_TABLE_OPEN, T_TABLE_CLOSE, T_KEY, T_WS };
struct Tok {
    TokKind kind; size_t start, end;    // [start, end) in UTF-16 units of the laid-out text
    size_t line;                        // 1-based line of the token's first character
    int pres = 0;                       // presentation kind for values / keys (see Pres)
    int depth = 0;                      // list/table nesting depth
    int item = -1;                      // ordinal of the item/loop/frame/block this token belongs to (for defect planting)
};
enum Pres { P_BARE = 0, P_SQ, P_DQ, P_TSQ, P_TDQ, P_TEXT, P_TEXT_FOLD, P_TEXT_PREFIX, P_TEXT_BOTH, P_COUNT };

struct Layout {
    ustr text;                          // LF-terminated lines
    std::vector<Tok> toks;
    std::vector<unsigned char> utf8() const;
};
struct DocCfg {
    int version = 2;                    // 2 = CIF 2.0, 1 = CIF 1.1
    int max_blocks = 3, max_items = 6, max_loop_names = 4, max_packets = 5;
    bool frames = true;
    bool long_tokens = false;           // occasionally a very long token (crosses buffers)
    bool magic11 = false;               // CIF 1.1: emit the optional #\#CIF_1.1 comment
    GenCfg vals;
};
Doc gen_doc(Rng &r, const DocCfg &c);
Layout layout_doc(const Doc &d, Rng &r, const DocCfg &c);
// what the document denotes, as a model CIF (numbers arrive as unquoted CHAR, scalars form the scalar loop, ...)
MCif expected_model(const Doc &d);
// presentation helpers (also used by the defect planter)
bool can_present(const ustr &s, Pres p, int version);
ustr present_value_text(const ustr &s, Pres p, Rng &r);   // the characters of the presentation, text fields start with "\n;"
std::vector<unsigned char> to_utf8(const ustr &s);
