// eng_mix.cpp -- C16 (monitors over every engine's workload) and C17 (allocation-failure enumeration over every engine's
// workload).  Both re-use the other engines with their semantic oracles demoted: a violation that belongs to another
// property is not reported here (that property's own check reports it).
#include "apieng.hpp"
#include "doceng.hpp"
#include "faultenum.hpp"
#include "internal/ciftypes.h"

RunResult eng_api_run_cfg(const RunSpec &spec, const ApiCfg &cfg);
ApiCfg api_config_for(const std::string &prop, const RunSpec &spec);
RunResult eng_value_run_cfg(const RunSpec &spec, const std::string &prop, bool enumerate, bool hostile_env);
RunResult eng_walk_run_cfg(const RunSpec &spec, const std::string &prop, bool enumerate);

static bool clause_is(const std::string &clause, const std::string &prop, std::initializer_list<const char *> names) {
    for (const char *n : names) if (clause == prop + "." + n) return true;
    return false;
}
// documents for the parse workload
static std::vector<unsigned char> small_doc(const RunSpec &spec, Doc *docp, int max_items) {
    Rng r(hmix(run_seed_of(spec), hstr("doc")));
    DocCfg cfg; cfg.version = r.chance(3, 4) ? 2 : 1; cfg.max_blocks = (int) r.range(1, 2); cfg.max_items = (int) r.range(2, max_items); cfg.max_loop_names = 3; cfg.max_packets = 3; cfg.frames = r.chance(1, 2);
    cfg.vals.max_depth = (int) r.range(0, 2); cfg.vals.max_members = 3; cfg.vals.allow_long = r.chance(1, 8); cfg.vals.allow_composite = cfg.version >= 2;
    Doc d = gen_doc(r, cfg); Rng lr(hmix(run_seed_of(spec), hstr("layout")));
    Layout l = layout_doc(d, lr, cfg);
    if (docp) *docp = d;
    return l.utf8();
}
static void env_hostile(const RunSpec &spec) {
    Rng er(hmix(run_seed_of(spec), hstr("env")));
    g_env.locale = (int) er.below(3); g_env.rounding = (int) er.below(4);
    if (spec.mods.default_env) g_env = EnvSeam();
    g_env.apply();
}

// ------------------------------------------------------------------------------------------------ C16
static RunResult run_c16(const RunSpec &spec) {
    RunResult res;
    const std::string prop = "C16";
    unsigned sel = (unsigned) (hmix(run_seed_of(spec), hstr("mix")) % 100);
    env_hostile(spec);
    long live0 = g_lalloc.live_blocks(), sq0 = sqlite_live_blocks();
    std::string what;
    try {
        if (sel < 30) {
            static const char *const BASE[] = { "C04", "C05", "C06", "C07", "C02", "C13" };
            const char *base = BASE[spec.run % 6];
            ApiCfg cfg = api_config_for(base, spec); cfg.prop = prop; cfg.hostile_env = true; cfg.leak_check = true; what = std::string("api:") + base;
            res = eng_api_run_cfg(spec, cfg);
        } else if (sel < 60) {
            // parse workload: any bytes, any options, stream faults -- totality is C03's business, here only the monitors count
            what = "doc";
            extern RunResult eng_doc_run(const RunSpec &);
            // (C15: handler programs that skip, end and abort the parse -- the clean-up paths behind user callbacks)
            static const char *const DOCP[] = { "C01", "C03", "C12", "C15", "C03", "C15", "C08", "C11" };
            RunSpec s2 = spec; s2.prop = DOCP[spec.run % 8];
            // run_seed_of depends on the property name: keep this run's own seed stream by passing the C16 spec through a sub-seed
            s2.seed = hmix(spec.seed, hstr("C16-doc")); res = eng_doc_run(s2);
        } else if (sel < 74) { what = "value"; res = eng_value_run_cfg(spec, prop, false, true); }
        else if (sel < 79) {
            // cif_parse into a managed CIF whose storage spills to the simulated disk, with one storage-engine I/O fault (write / read /
            // truncate / open error, disk full) somewhere in the parse: only the monitors, the result-code class and the usability of
            // whatever CIF comes back are judged
            what = "parse_disk";
            g_plan_n_ops = 0; g_plan_fault_ops.clear(); plan_ready();
            Rng pr(hmix(run_seed_of(spec), hstr("parse_disk")));
            Doc d; std::vector<unsigned char> bytes = small_doc(spec, &d, 9);
            g_disk.cache_pages = (int) pr.range(1, 4); g_disk.no_lookaside = pr.chance(1, 3);
            static const int CODES[] = { SQLITE_FULL, SQLITE_IOERR_WRITE, SQLITE_IOERR_READ, SQLITE_IOERR_TRUNCATE, SQLITE_CANTOPEN, SQLITE_IOERR_FSYNC };
            int kind = (int) pr.range(1, 7); long at = 1 + (long) pr.below(pr.chance(1, 2) ? 12 : 200); int code = CODES[pr.below(6)]; bool sticky = pr.chance(1, 2);
            if (spec.mods.no_faults) kind = 0;
            ParseOpts o; o.policy = pr.chance(2, 3) ? 1 : 0; o.target = pr.chance(1, 5) ? 2 : 1; o.max_frame_depth = -1; StreamCfg sc; sc.chunk = pr.chance(1, 2) ? (size_t) pr.range(1, 300) : 0;
            cif_tp *existing = NULL; if (o.target == 2 && cif_create(&existing) != CIF_OK) { existing = NULL; o.target = 1; }
            if (kind) { g_disk.arm(kind, at, code, sticky); g_stats.inc("fault.disk.configured"); }
            ParseOutcome out = run_parse(bytes, o, sc, existing);
            bool fired = g_disk.fired; g_disk.disarm();
            if (fired) g_stats.inc("fault.disk.fired");
            ev("parse_disk: %zu bytes, cache=%d kind=%d at=%ld code=%d sticky=%d -> %s, fault fired=%d, vfs writes=%ld reads=%ld", bytes.size(), g_disk.cache_pages, kind, at, code, sticky ? 1 : 0, rc_name(out.rc), fired ? 1 : 0, g_disk.n_write, g_disk.n_read);
            g_stats.cover(hmix(hstr("c16pd"), hmix((uint64_t) kind * 2 + (fired ? 1 : 0), (uint64_t) (out.rc + 7))));
            std::unique_ptr<Violation> bad;
            if (!rc_defined(out.rc)) bad.reset(new Violation(prop + ".memory", "parse_disk:undefined_code", strprintf("cif_parse returned the undefined code %d under a storage fault", out.rc), -1));
            if (!fired && out.rc != CIF_OK && out.errs.empty()) bad.reset(new Violation(prop + ".memory", "parse_disk:failed_without_fault", strprintf("cif_parse of a well-formed document failed with %s although no fault fired", rc_name(out.rc)), -1));
            cif_tp *c = out.cif ? out.cif : existing;
            if (c) { int q = cif_destroy(c); if (q != CIF_OK && !fired && !bad) bad.reset(new Violation(prop + ".release", "cif_destroy", strprintf("cif_destroy -> %s", rc_name(q)), -1)); }
            g_disk.cache_pages = 0; g_disk.no_lookaside = false;
            if (bad) throw *bad;
        }
        else if (sel < 85) { what = "walk"; res = eng_walk_run_cfg(spec, prop, false); }
        else {
            // error paths: the same workloads under allocation failures (C17's enumeration), monitors only
            what = "faults";
            if (spec.run % 2) { ApiCfg cfg = api_config_for("C04", spec); cfg.prop = prop; cfg.enumerate_alloc = true; cfg.leak_check = true; cfg.min_ops = 3; cfg.max_ops = 10; cfg.content_clause = "unchanged"; res = eng_api_run_cfg(spec, cfg); }
            else res = eng_value_run_cfg(spec, prop, true, true);
        }
    } catch (Violation &v) {
        g_lalloc.disarm(); g_salloc.disarm(); g_disk.disarm();
        bool mine = clause_is(v.clause, prop, {"leak", "locale", "rounding", "release", "memory"}) || v.clause.find(".leak") != std::string::npos || v.clause.find(".locale") != std::string::npos || v.clause.find(".rounding") != std::string::npos;
        if (mine) { std::string c = v.clause.substr(v.clause.find('.') + 1); throw Violation(prop + "." + c, v.sig, v.detail + " [workload " + what + "]", v.op_index); }
        g_stats.inc("c16.other_property_violation_ignored"); g_stats.inc("c16.ignored." + v.clause + "[" + v.sig.substr(0, 60) + "]");
        ev("ignored %s (belongs to another property)", v.clause.c_str());
        return res;     // state after a foreign violation is not examined further
    }
    g_stats.cover(hmix(hstr("c16"), hmix(hstr(what.c_str()), (uint64_t) g_env.locale * 4 + (uint64_t) g_env.rounding)));
    g_stats.inc("c16.workload." + what);
    // the workload may have chosen its own environment (g_env); re-applying it must be a no-op
    std::string loc1 = EnvSeam::cur_locale(); int rnd1 = EnvSeam::cur_rounding(); g_env.apply();
    if (EnvSeam::cur_locale() != loc1) throw Violation(prop + ".locale", what, strprintf("LC_NUMERIC was left as \"%s\", the caller had set \"%s\" (workload %s)", loc1.c_str(), EnvSeam::cur_locale().c_str(), what.c_str()), -1);
    if (EnvSeam::cur_rounding() != rnd1) throw Violation(prop + ".rounding", what, strprintf("the rounding mode was left changed (workload %s)", what.c_str()), -1);
    long l1 = g_lalloc.live_blocks(), s1 = sqlite_live_blocks();
    if (l1 != live0) { std::string sites = g_lalloc.describe_live(3); throw Violation(prop + ".leak", sites, strprintf("%ld block(s) allocated by the library are still live after the %s workload released everything; allocation site(s): %s", l1 - live0, what.c_str(), sites.c_str()), -1); }
    if (s1 != sq0) throw Violation(prop + ".leak", "sqlite", strprintf("%ld storage-engine allocation(s) still live after the %s workload", s1 - sq0, what.c_str()), -1);
    if (g_disk.live_files() != 0) throw Violation(prop + ".leak", "tempfile", strprintf("%zu temporary storage file(s) left behind by the %s workload", g_disk.live_files(), what.c_str()), -1);
    return res;
}

// ------------------------------------------------------------------------------------------------ C17
static RunResult run_c17(const RunSpec &spec) {
    RunResult res;
    const std::string prop = "C17";
    unsigned sel = (unsigned) (hmix(run_seed_of(spec), hstr("mix")) % 100);
    bool quick = spec.tier != "thorough";
    long live0 = g_lalloc.live_blocks(), sq0 = sqlite_live_blocks();
    std::string what;
    try {
        if (sel < 55) {
            static const char *const BASE[] = { "C04", "C06", "C07", "C02", "C13", "C04" };
            const char *base = BASE[spec.run % 6];
            ApiCfg cfg = api_config_for(base, spec); cfg.prop = prop; cfg.enumerate_alloc = true; cfg.leak_check = true; cfg.content_clause = "unchanged"; cfg.quick = quick; cfg.spill_den = 0;
            cfg.min_ops = 3; cfg.max_ops = quick ? 12 : 20; cfg.write_faults = false; cfg.storage_faults = false; what = std::string("api:") + base;
            res = eng_api_run_cfg(spec, cfg);
        } else if (sel < 78) { what = "value"; res = eng_value_run_cfg(spec, prop, true, false); }
        else if (sel < 92) {
            what = "parse";
            g_plan_n_ops = 0; g_plan_fault_ops.clear(); plan_ready();
            std::vector<unsigned char> bytes = small_doc(spec, NULL, quick ? 4 : 6);
            Rng pr(hmix(run_seed_of(spec), hstr("parse")));
            // half of the documents are damaged (error paths of the parser under allocation failure)
            int ncor = (spec.mods.simple.count(0) || pr.chance(1, 2)) ? 0 : (int) pr.range(1, 3);
            for (int i = 0; i < ncor && !bytes.empty(); ++i) {
                if (pr.chance(1, 2)) { doc_corrupt(bytes, pr, NULL); continue; }     // the corruptions of the C03 workload (incl. whole defective constructs)
                size_t at = pr.below(bytes.size()); unsigned kind = (unsigned) pr.below(9); if (kind >= 5) kind = kind - 5; if (kind == 3 && pr.chance(2, 3)) kind = 1;   // truncation is rare: it leaves little to parse
                static const char INS[] = "'\";[]{}:_#$ \n\\";
                if (kind == 0) bytes.erase(bytes.begin() + (long) at);
                else if (kind == 1) bytes.insert(bytes.begin() + (long) at, (unsigned char) INS[pr.below(sizeof INS - 1)]);
                else if (kind == 2) bytes[at] = (unsigned char) INS[pr.below(sizeof INS - 1)];
                else if (kind == 3) bytes.resize(at);
                else { size_t n = std::min<size_t>(bytes.size() - at, 1 + pr.below(12)); std::vector<unsigned char> piece(bytes.begin() + (long) at, bytes.begin() + (long) (at + n)); bytes.insert(bytes.begin() + (long) pr.below(bytes.size()), piece.begin(), piece.end()); }
            }
            FaultEnum fe; fe.enabled = true; fe.quick = quick; fe.prop = prop; fe.seed = run_seed_of(spec);
            ParseOpts o; o.policy = pr.chance(2, 3) ? 1 : 0; o.target = (spec.run % 4 == 0) ? 0 : 1; o.max_frame_depth = (int) pr.range(-1, 1); StreamCfg sc; sc.chunk = pr.chance(1, 2) ? (size_t) pr.range(1, 64) : 0;
            // half of the parses run with handlers that query the objects they are given (allocations inside callbacks count too)
            if (pr.chance(1, 2)) { o.hp.present = true; o.hp.reenter = true; for (int k = 0; k < 11; ++k) o.hp.resp[k].push_back(CIF_TRAVERSE_CONTINUE); o.syntax_callbacks = pr.chance(1, 2); }
            // a third of the parses run with small scanner / reader buffers: ordinary tokens then make the scan buffer grow (several times),
            // so the allocation that enlarges it, and the buffer states around it, are among the enumerated failure sites
            Knobs kn; if (!spec.mods.default_knobs && pr.chance(1, 3)) { kn = gen_knobs(pr, false); g_stats.inc("c17.parse_small_buffers"); }
            kn.apply();
            ev("C17 parse of %zu bytes (%d corruption(s)), policy=%d target=%d handlers=%d knobs %s", bytes.size(), ncor, o.policy, o.target, o.hp.present ? 1 : 0, kn.str().c_str());
            if (g_log.keep_text) { std::string t; for (size_t i = 0; i < bytes.size() && t.size() < 900; ++i) { unsigned char ch = bytes[i]; if (ch == '\n') t += "\\n"; else if (ch >= 0x20 && ch < 0x7f && ch != '\\') t += (char) ch; else t += strprintf("\\x%02x", ch); } ev("bytes: %s", t.c_str()); }
            // reference: the same call with memory available
            ParseOutcome ref = run_parse(bytes, o, sc, NULL);
            std::string ref_dump; bool ref_dump_ok = false;
            if (ref.cif) { try { ref_dump = canon(dump_cif(ref.cif, "C17")); ref_dump_ok = true; } catch (Violation &) { } int q = cif_destroy(ref.cif); (void) q; }
            ev("reference: cif_parse -> %s, %zu error(s)", rc_name(ref.rc), ref.errs.size());
            ParseOutcome out; cif_tp *made = NULL;
            fe.after_failed = [&](const char *, long) {
                // a CIF newly created by a failing cif_parse must be readable, consistent and destroyable
                if (made) { try { MCif m = dump_cif(made, "C17"); (void) m; } catch (Violation &v) { throw Violation(prop + ".unchanged", "parse:" + v.sig, "the CIF left by a cif_parse that failed for lack of memory is inconsistent: " + v.detail, -1); } int rc = cif_destroy(made); made = NULL; fe.watch_db = NULL; if (rc != CIF_OK) throw Violation(prop + ".args_valid", "cif_destroy", "the CIF left by a failed cif_parse cannot be destroyed", -1); }
            };
            fe.idempotent = true;
            fe.after_absorbed = [&](const char *, long, int arc) {
                std::unique_ptr<Violation> bad2;
                if (arc != ref.rc) bad2.reset(new Violation(prop + ".retry", strprintf("cif_parse:absorbed:%s!=%s", rc_name(arc), rc_name(ref.rc)), strprintf("cif_parse completed with %s although an allocation failed; with memory available the same call returns %s", rc_name(arc), rc_name(ref.rc)), -1));
                else if (made && ref_dump_ok && !o.hp.present) { try { std::string d2 = canon(dump_cif(made, "C17")); if (d2 != ref_dump) bad2.reset(new Violation(prop + ".unchanged", "cif_parse:absorbed:content", "cif_parse returned its normal code although an allocation failed, but the CIF it produced differs from the one produced with memory available: " + first_diff(ref_dump, d2), -1)); } catch (Violation &v) { bad2.reset(new Violation(prop + ".unchanged", "parse:" + v.sig, v.detail, -1)); } }
                if (made) { int q = cif_destroy(made); (void) q; made = NULL; fe.watch_db = NULL; }
                if (bad2) throw *bad2;
            };
            int rc = fe.call("cif_parse", [&]() { if (made) { int q = cif_destroy(made); (void) q; made = NULL; } fe.watch_db = NULL; out = run_parse(bytes, o, sc, NULL); made = out.cif; fe.watch_db = made ? made->db : NULL; return out.rc; });
            ev("cif_parse -> %s after %ld failed attempts", rc_name(rc), fe.steps);
            std::unique_ptr<Violation> bad;
            if (rc != ref.rc) bad.reset(new Violation(prop + ".retry", strprintf("cif_parse:%s!=%s", rc_name(rc), rc_name(ref.rc)), strprintf("cif_parse returned %s on the attempt during which no allocation failed (or the failure was absorbed); with memory available the same call returns %s", rc_name(rc), rc_name(ref.rc)), -1));
            else if (made && ref_dump_ok) { try { std::string d2 = canon(dump_cif(made, "C17")); if (d2 != ref_dump) bad.reset(new Violation(prop + ".retry", "cif_parse:content", "the CIF produced after failed attempts differs from the one produced with memory available: " + first_diff(ref_dump, d2), -1)); } catch (Violation &v) { bad.reset(new Violation(prop + ".unchanged", "parse:" + v.sig, v.detail, -1)); } }
            if (made) { int q = cif_destroy(made); made = NULL; if (q != CIF_OK && !bad) bad.reset(new Violation(prop + ".args_valid", "cif_destroy", "cif_destroy failed", -1)); }
            if (bad) throw *bad;
            g_stats.inc("c17.parse_steps", (uint64_t) fe.steps); g_stats.inc(ncor ? "c17.parse_damaged" : "c17.parse_wellformed");
            Knobs::reset();
            fe.txm.finish();
        } else { what = "walk"; res = eng_walk_run_cfg(spec, prop, true); }
    } catch (Violation &v) {
        g_lalloc.disarm(); g_salloc.disarm(); g_disk.disarm(); Knobs::reset();
        std::string c = v.clause.substr(v.clause.find('.') + 1);
        if (c == "rc") c = "retry";                     // the attempt during which nothing failed must behave normally
        // (clauses of the round-trip oracle - refused, reparse, equiv, ... - judge the attempt of cif_write / cif_parse during which no
        // allocation failed, so they belong to C02 / C13, known findings included; the codes returned by attempts that absorbed a
        // failure are compared with that attempt's code inside ApiRun::api, A_REPEATABLE)
        if (c == "source_changed" || c == "once" || c == "result" || c == "content") c = "unchanged";
        bool mine = c == "code" || c == "unchanged" || c == "args_valid" || c == "retry" || c == "leak" || c == "release" || c == "enumeration" || c == "memory" || c == "autocommit" || c == "dump" || c == "invariant" || c == "structure";
        if (c == "structure" || c == "dump" || c == "invariant") c = "unchanged";
        if (c == "release") c = "leak";
        if (mine) throw Violation(prop + "." + c, v.sig, v.detail + " [workload " + what + "]", v.op_index);
        g_stats.inc("c17.other_property_violation_ignored"); g_stats.inc("c17.ignored." + v.clause + "[" + v.sig.substr(0, 60) + "]");
        ev("ignored %s (belongs to another property)", v.clause.c_str());
        return res;
    }
    g_stats.inc("c17.workload." + what);
    long l1 = g_lalloc.live_blocks(), s1 = sqlite_live_blocks();
    if (l1 != live0) { std::string sites = g_lalloc.describe_live(3); throw Violation(prop + ".leak", sites, strprintf("%ld block(s) leaked on an allocation-failure path of the %s workload; allocation site(s): %s", l1 - live0, what.c_str(), sites.c_str()), -1); }
    if (s1 != sq0) throw Violation(prop + ".leak", "sqlite", strprintf("%ld storage-engine allocation(s) leaked (workload %s)", s1 - sq0, what.c_str()), -1);
    return res;
}

RunResult eng_mix_run(const RunSpec &spec) {
    if (spec.prop == "C16") return run_c16(spec);
    return run_c17(spec);
}
