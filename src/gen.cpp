// gen.cpp -- seeded generators (see gen.hpp)
#include "gen.hpp"

static void put_cp(ustr &s, unsigned c) {
    if (c >= 0x10000) { c -= 0x10000; s += (char16_t) (0xd800 + (c >> 10)); s += (char16_t) (0xdc00 + (c & 0x3ff)); } else s += (char16_t) c;
}
static const char SIG[] = "'\";\\#$_[]{}:?.,";
static const unsigned BMP[] = { 0xe9, 0xc5, 0x3a3, 0x3c2, 0x4e2d, 0x2028, 0xdf, 0x1c5, 0xfffd, 0xa0, 0x301 };
static const unsigned SUPP[] = { 0x1f600, 0x10428, 0x10400, 0x2f81a, 0x10fffd };
static void put_random_char(Rng &r, const GenCfg &c, ustr &s) {
    unsigned w = (unsigned) r.below(100);
    if (w < 50) { static const char A[] = "abcdefghijklmnopqrstuvwxyzABCDEFGHIJKLMNOPQRSTUVWXYZ0123456789"; s += (char16_t) A[r.below(sizeof A - 1)]; }
    else if (w < 72) s += (char16_t) SIG[r.below(sizeof SIG - 1)];
    else if (w < 82) s += (char16_t) (r.chance(3, 4) ? ' ' : '\t');
    else if (w < 87) { if (c.allow_newlines) s += u'\n'; else s += u'x'; }
    else if (w < 90) { static const char P[] = "!%&()*+-/<=>@^`|~"; s += (char16_t) P[r.below(sizeof P - 1)]; }
    else if (c.cif11_chars_only) s += (char16_t) ('a' + r.below(26));
    else if (w < 96) put_cp(s, BMP[r.below(sizeof BMP / sizeof BMP[0])]);
    else put_cp(s, SUPP[r.below(sizeof SUPP / sizeof SUPP[0])]);
}
ustr gen_string(Rng &r, const GenCfg &c) {
    ustr s;
    if (c.boundary_bias && r.chance(1, 3)) {
        // writer decision boundaries: line lengths around 2048, semicolon runs, trailing backslashes / blanks, text delimiters
        unsigned shape = (unsigned) r.below(25);
        size_t n = 2036 + r.below(24);
        auto fill = [&](size_t k, bool spaces) { for (size_t i = 0; i < k; ++i) s += (spaces && r.chance(1, 9)) ? u' ' : (char16_t) ('a' + (i % 26)); };
        switch (shape) {
            case 0: fill(n, false); break;
            case 1: fill(n, true); break;
            case 2: s += u';'; fill(r.below(30), true); break;
            case 3: fill(r.below(20), true); s += U("\n;"); fill(r.below(20), true); break;
            case 4: fill(r.below(20), true); s += U(" \nnext"); break;
            case 5: fill(r.below(20), true); s += U("\\\nnext"); break;
            case 6: fill(r.below(20), false); s += U("\\"); if (r.chance(1, 2)) s += U("  "); s += U("\n\nafter"); break;
            case 7: s += ustr(2040 + r.below(16), u';'); break;
            case 8: s += U("a'''b\"\"\"c"); if (r.chance(1, 2)) s += U("\nd"); break;
            case 9: fill(n - 8, true); put_cp(s, 0x1f600); put_cp(s, 0x10428); put_cp(s, 0x1f600); fill(r.below(12), false); break;
            case 10: fill(10, false); s += u'\n'; fill(n, true); s += u'\n'; fill(5, false); break;
            case 11: s += U("x\\"); s += u'\n'; fill(r.below(10), false); break;
            // the LAST line ends in a backslash (optionally followed by blanks), in values that need a (folded) text field
            case 12: fill(r.below(12), true); s += U("\\\n"); fill(r.below(12), true); s += U("\\"); if (r.chance(1, 2)) s += r.chance(1, 2) ? U(" ") : U(" \t "); break;
            case 13: s += U("it's a \"path\\"); if (r.chance(1, 3)) s += U("  "); break;
            case 14: fill(n + 20, true); s += U("\\"); if (r.chance(1, 3)) s += U(" "); break;
            case 15: fill(r.below(12), true); s += U("\n;"); fill(r.below(12), true); s += U("\\"); break;
            // a leading semicolon in a value that has to be folded
            case 16: s += u';'; fill(n + 20, true); break;
            case 17: s += u';'; fill(r.below(12), true); s += U("\\"); if (r.chance(1, 2)) s += U(" "); s += U("\nmore"); break;
            case 18: s += U(";x\n"); fill(n + 20, true); break;
            // a value that needs a PREFIXED text field (both triple-quote kinds and an embedded newline-semicolon) with a line at the length limit
            case 19: s += U("a'''\"\"\"\n;b\n"); fill(2040 + r.below(12), true); if (r.chance(1, 3)) { s += U("\n"); fill(r.below(9), false); } break;
            case 20: fill(2040 + r.below(12), true); s += U("\n;'''x\"\"\""); break;
            case 21: s += U("'''\"\"\"\n"); fill(2040 + r.below(12), false); s += U("\n;"); break;
            // one-line values that hold one triple-quote kind and end in the other quote character (the choice between ''' and """ delimiters)
            case 22: fill(r.below(8), true); s += U("'''"); fill(r.below(8), true); s += U("\""); break;
            case 23: fill(r.below(8), true); s += U("\"\"\""); fill(r.below(8), true); s += U("'"); break;
            default: fill(r.below(12), false); s += U("\n"); fill(n + 20, true); s += U("\n"); fill(r.below(8), false); s += U("\\"); if (r.chance(1, 2)) s += U("\t"); break;
        }
        if (c.cif11_chars_only) for (auto &ch : s) if (ch > 0x7e) ch = u'z';
        if (!c.allow_newlines) for (auto &ch : s) if (ch == u'\n') ch = u' ';
        return s;
    }
    unsigned w = (unsigned) r.below(100);
    size_t len;
    if (w < 55) len = r.below(13);
    else if (w < 82) len = 13 + r.below(48);
    else if (w < 94 || !c.allow_long) len = 61 + r.below(540);
    else { static const size_t B[] = { 250, 505, 2040, 4000 }; size_t b = B[r.below(4)]; len = b + r.below(b == 4000 ? 1000 : 16); }
    if (r.chance(1, 12)) {
        static const char *const T[] = { "data_", "loop_", "save_x", "stop_", "global_", "'''", "\"\"\"", "\n;", "\\\n", ";", "DATA_a", "?", ".", "_name",
            "dAta_", "DAta_x", "dATa_1", "DATa_", "Save_", "sAVE_f", "LOOP_", "Loop_", "loop_x", "looP_", "STOP_", "stop_x", "Global_", "GLOBAL_", "global_x", "globals", "dat_", "sav_x" };
        const char *t = T[r.below(sizeof T / sizeof T[0])];
        ustr tok = U(t);
        if (!c.allow_newlines) for (auto &ch : tok) if (ch == u'\n') ch = u' ';
        if (r.chance(1, 2)) return tok;
        s += tok;
    }
    if (len > 600 && r.chance(2, 3)) {        // long strings: mostly plain filler so that they stay fast, with a few hot spots
        for (size_t i = 0; i < len; ++i) { if (r.chance(1, 40)) put_random_char(r, c, s); else s += (char16_t) ('a' + (i % 26)); }
    } else for (size_t i = 0; i < len; ++i) put_random_char(r, c, s);
    return s;
}
bool is_reserved_word(const ustr &s) {
    std::string l; for (size_t i = 0; i < s.size() && i < 8; ++i) { char16_t c = s[i]; if (c >= 'A' && c <= 'Z') c = (char16_t) (c - 'A' + 'a'); l += c < 128 ? (char) c : '?'; }
    if (l.compare(0, 5, "data_") == 0 || l.compare(0, 5, "save_") == 0) return true;
    return s.size() <= 7 && (l == "loop_" || l == "stop_" || l == "global_");
}
bool bare_ok(const ustr &s) {
    if (s.empty() || s.size() > 2048) return false;
    for (char16_t ch : s) { if (ch <= 0x20 || ch == '[' || ch == ']' || ch == '{' || ch == '}' || ch == 0x7f) return false; }
    char16_t f = s[0];
    if (f == '\'' || f == '"' || f == '#' || f == '$' || f == '_' || f == ';') return false;
    if (is_reserved_word(s)) return false;          // data_* and save_* (any suffix), loop_, stop_, global_ (exact), in any letter case
    if (s.size() == 1 && (f == '?' || f == '.')) return false;
    return m_valid_key(s);
}
ustr gen_bare_string(Rng &r, const GenCfg &c) {
    if (r.chance(1, 10)) {
        // texts one step away from the number grammar (and a few inside it): whitespace-delimited values that are, or are not, numbers
        static const char *const N[] = { "-.", "+.", ".e3", "-.(3)", "+.e-2", ".(1)", "1e", "1e+", "1(", "1()", "1(2", "(1)", "e5", "+", "-", "--1", "1.2.3", "0x10", "1,5", "1.", ".5", "-5.", "+.5e1", "1.(2)", "12(3)", "1E5", "1e-3(4)", "4.e2", "1..", "1e5.", "1(2)3", "+-1", "1e5e6" };
        return U(N[r.below(sizeof N / sizeof N[0])]);
    }
    for (;;) {
        ustr s;
        static const char F[] = "abcdefghijklmnopqrstuvwxyzABCDEFGHIJKLMNOPQRSTUVWXYZ0123456789+-.?";
        static const char G[] = "abcdefghijklmnopqrstuvwxyzABCDEFGHIJKLMNOPQRSTUVWXYZ0123456789+-.?;:'\"#$_\\/,()*=<>";
        s += (char16_t) F[r.below(sizeof F - 1)];
        size_t len = r.chance(1, 60) && c.allow_long ? 2000 + r.below(48) : r.below(16);
        for (size_t i = 0; i < len; ++i) {
            if (!c.cif11_chars_only && r.chance(1, 15)) put_cp(s, r.chance(1, 3) ? SUPP[r.below(3)] : BMP[r.below(7)]);
            else s += (char16_t) G[r.below(sizeof G - 1)];
        }
        if (bare_ok(s)) return s;
    }
}
ustr gen_number_text(Rng &r) {
    std::string s;
    unsigned w = (unsigned) r.below(100);
    if (w < 8) { static const char *const T[] = { "0", "-0", "007", "1.", ".5", "+.5e-03(12)", "1e400", "-1.5E-400(3)", "12.50(10)", "0.000", "00.10(01)", "3(0)" }; return U(T[r.below(sizeof T / sizeof T[0])]); }
    if (r.chance(1, 3)) s += r.chance(1, 2) ? "-" : "+";
    size_t id = w < 90 ? 1 + r.below(6) : (w < 97 ? 15 + r.below(10) : 280 + r.below(40));
    bool lead = r.chance(5, 6);
    if (lead) for (size_t i = 0; i < id; ++i) s += (char) ('0' + r.below(10));
    if (!lead || r.chance(1, 2)) { s += "."; size_t fd = (!lead) ? 1 + r.below(8) : r.below(8); for (size_t i = 0; i < fd; ++i) s += (char) ('0' + r.below(10)); }
    if (r.chance(1, 4)) { s += r.chance(1, 2) ? "e" : "E"; if (r.chance(1, 2)) s += r.chance(1, 2) ? "-" : "+"; s += std::to_string((unsigned) r.below(r.chance(1, 8) ? 420 : 30)); }
    if (r.chance(1, 4)) { s += "("; size_t sd = 1 + r.below(3); for (size_t i = 0; i < sd; ++i) s += (char) ('0' + r.below(10)); s += ")"; }
    return U(s.c_str());
}
MValue simple_value(uint64_t tag) { return MValue::chr(U(strprintf("v%llu", (unsigned long long) (tag % 1000)).c_str()), true); }
MValue gen_value(Rng &r, const GenCfg &c, int depth) {
    std::vector<unsigned> w = { 24, 16, c.allow_numb ? 15u : 0u, 8, 7, 0, 0 };
    if (c.allow_composite && depth < c.max_depth) { w[5] = 15; w[6] = 15; }
    switch (r.weighted(w)) {
        case 0: return MValue::chr(gen_string(r, c), true);
        case 1: return MValue::chr(gen_bare_string(r, c), false);
        case 2: { MValue v = MValue::numb(gen_number_text(r)); if (r.chance(1, 6)) v.quoted = true; return v; }
        case 3: return MValue::unk();
        case 4: return MValue::na();
        case 5: {
            MValue v; v.kind = CIF_LIST_KIND;
            size_t n = r.chance(1, 10) ? 9 + r.below(12) : r.below((uint64_t) c.max_members + 1);
            for (size_t i = 0; i < n; ++i) v.elems.push_back(gen_value(r, c, depth + 1));
            return v;
        }
        default: {
            MValue v; v.kind = CIF_TABLE_KIND;
            size_t n = r.below((uint64_t) c.max_members + 1);
            for (size_t i = 0; i < n; ++i) {
                ustr key;
                if (c.boundary_bias && r.chance(1, 12)) {
                    // table keys near the line-length limit (a key cannot be a text field: key + delimiters + colon must fit on one line)
                    static const size_t KL[] = { 1500, 1790, 1799, 2030, 2040, 2044, 2045, 2046, 2050 };
                    size_t n2 = KL[r.below(sizeof KL / sizeof KL[0])]; bool blanks = r.chance(1, 2);
                    for (size_t q = 0; q < n2; ++q) key += (blanks && q % 17 == 5) ? u' ' : (char16_t) ('a' + q % 26);
                }
                else if (r.chance(3, 4)) { const NameClass &nc = r.pick(key_pool()); key = nc.variants[r.below(nc.variants.size())]; }
                else { GenCfg kc = c; kc.allow_long = r.chance(1, 8); key = gen_string(r, kc); if (key.size() > 1200) key.resize(1000); if (!m_valid_key(key)) key = U("k2"); }
                if (c.cif11_chars_only) for (auto &ch : key) if (ch > 0x7e) ch = u'k';
                MValue e = gen_value(r, c, depth + 1);
                if (MValue *old = v.find_key(key)) { *old = e; for (auto &en : v.entries) if (mnfc(en.first) == mnfc(key)) en.first = key; }
                else v.entries.push_back({key, e});
            }
            return v;
        }
    }
}
