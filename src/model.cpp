// model.cpp -- reference model helpers: harness-side normalisation, name pools, value snapshot/build, CIF dump.
#include "model.hpp"
#include <unicode/unorm2.h>
#include <unicode/uchar.h>
#include <unistd.h>

// ------------------------------------------------------------------------------------------------ normalisation
static ustr icu_norm(const UNormalizer2 *n, const ustr &s) {
    UErrorCode ec = U_ZERO_ERROR;
    std::vector<UChar> buf(s.size() * 4 + 16);
    int32_t len = unorm2_normalize(n, (const UChar *) s.data(), (int32_t) s.size(), buf.data(), (int32_t) buf.size(), &ec);
    if (U_FAILURE(ec)) { fprintf(stderr, "cifsim: ICU normalisation failed in the harness (%s)\n", u_errorName(ec)); _exit(2); }
    return ustr((const char16_t *) buf.data(), (size_t) len);
}
ustr mnfc(const ustr &s) { UErrorCode ec = U_ZERO_ERROR; return icu_norm(unorm2_getNFCInstance(&ec), s); }
ustr mnorm(const ustr &s) {
    UErrorCode ec = U_ZERO_ERROR;
    ustr d = icu_norm(unorm2_getNFDInstance(&ec), s);
    std::vector<UChar> buf(d.size() * 3 + 16);
    int32_t len = u_strFoldCase(buf.data(), (int32_t) buf.size(), (const UChar *) d.data(), (int32_t) d.size(), U_FOLD_CASE_DEFAULT, &ec);
    if (U_FAILURE(ec)) { fprintf(stderr, "cifsim: ICU case folding failed in the harness\n"); _exit(2); }
    return icu_norm(unorm2_getNFCInstance(&ec), ustr((const char16_t *) buf.data(), (size_t) len));
}
static bool has_disallowed(const ustr &s) {
    for (size_t i = 0; i < s.size(); ++i) {
        char16_t c = s[i];
        if (c >= 0xd800 && c <= 0xdbff) {
            if (i + 1 >= s.size() || s[i + 1] < 0xdc00 || s[i + 1] > 0xdfff) return true;
            uint32_t cp = 0x10000 + (((uint32_t) c - 0xd800) << 10) + ((uint32_t) s[i + 1] - 0xdc00);
            if ((cp & 0xfffe) == 0xfffe) return true;
            ++i;
        } else if (c >= 0xdc00 && c <= 0xdfff) return true;
        else if ((c < 0x20 && c != 9 && c != 10 && c != 13) || c == 0x7f || (c >= 0xfdd0 && c <= 0xfdef) || c >= 0xfffe) return true;
    }
    return false;
}
bool m_valid_key(const ustr &s) { return !has_disallowed(s); }
bool m_valid_name(const ustr &s, bool item) {
    if (item) { if (s.size() < 2 || s[0] != '_') return false; } else if (s.empty()) return false;
    size_t cps = 0;
    for (size_t i = 0; i < s.size(); ++i) { if (s[i] <= 0x20) return false; if (!(s[i] >= 0xdc00 && s[i] <= 0xdfff)) ++cps; }
    if (cps > (size_t) (2048 - (item ? 0 : 5))) return false;
    return !has_disallowed(s);
}

// ------------------------------------------------------------------------------------------------ pools
static ustr W(std::initializer_list<unsigned> cps) {
    ustr s;
    for (unsigned c : cps) { if (c >= 0x10000) { c -= 0x10000; s += (char16_t) (0xd800 + (c >> 10)); s += (char16_t) (0xdc00 + (c & 0x3ff)); } else s += (char16_t) c; }
    return s;
}
static ustr cat(const ustr &a, const ustr &b) { return a + b; }
const std::vector<NameClass> &item_pool() {
    static std::vector<NameClass> p;
    if (p.empty()) {
        p.push_back({{U("_a"), U("_A")}});
        p.push_back({{U("_b"), U("_B")}});
        p.push_back({{U("_c.d"), U("_C.D"), U("_c.D")}});
        p.push_back({{W({'_', 0xe9}), W({'_', 'e', 0x301}), W({'_', 0xc9}), W({'_', 'E', 0x301})}});
        p.push_back({{W({'_', 0xe5}), W({'_', 'a', 0x30a}), W({'_', 0xc5}), W({'_', 0x212b}), W({'_', 'A', 0x30a})}});
        p.push_back({{cat(U("_stra"), W({0xdf, 'e'})), U("_strasse"), U("_STRASSE"), U("_Strasse")}});
        p.push_back({{W({'_', 0x3c3, 'x'}), W({'_', 0x3a3, 'x'}), W({'_', 0x3c2, 'x'})}});
        p.push_back({{W({'_', 0x10428}), W({'_', 0x10400})}});
        p.push_back({{U("_atom_site.label"), U("_ATOM_SITE.LABEL"), U("_Atom_Site.Label")}});
        p.push_back({{U("_q[1]"), U("_Q[1]")}});
        p.push_back({{U("_n;m$'\"#"), U("_N;M$'\"#")}});
        p.push_back({{W({'_', 0xac00}), W({'_', 0x1100, 0x1161})}});
        p.push_back({{U("_z"), U("_Z")}});
        p.push_back({{W({'_', 0x1c6}), W({'_', 0x1c5}), W({'_', 0x1c4})}});
        p.push_back({{U("_e1"), U("_E1")}});
        p.push_back({{U("_e2"), U("_E2")}});
        // canonically distinct names that are merely compatibility-equivalent (names are matched under NFD / case folding / NFC, not NFKC)
        p.push_back({{W({'_', 'x', 0xb2}), W({'_', 'X', 0xb2})}});
        p.push_back({{U("_x2"), U("_X2")}});
    }
    return p;
}
const std::vector<NameClass> &code_pool() {
    static std::vector<NameClass> p;
    if (p.empty()) {
        p.push_back({{U("blk"), U("BLK"), U("Blk")}});
        p.push_back({{U("b2"), U("B2")}});
        p.push_back({{W({0xe9, 't', 0xe9}), W({'e', 0x301, 't', 'e', 0x301}), W({0xc9, 'T', 0xc9})}});
        p.push_back({{W({'x', 0x10428}), W({'X', 0x10400})}});
        p.push_back({{U("f_1"), U("F_1")}});
        p.push_back({{U("a[1]{2}"), U("A[1]{2}")}});
        p.push_back({{W({0xdf}), U("ss"), U("SS")}});
        p.push_back({{U("_under"), U("_UNDER")}});
        p.push_back({{W({'q', 0xb2}), W({'Q', 0xb2})}});        // q + SUPERSCRIPT TWO versus q2: distinct codes
        p.push_back({{U("q2"), U("Q2")}});
    }
    return p;
}
const std::vector<ustr> &invalid_items() {
    static std::vector<ustr> p;
    if (p.empty()) {
        p.push_back(U(""));
        p.push_back(U("a"));
        p.push_back(U("_"));
        p.push_back(U("_a b"));
        p.push_back(U("_a\tb"));
        p.push_back(W({'_', 'a', 0xfffe}));
        p.push_back(W({'_', 0xd800}));
        p.push_back(W({'_', 0xdc00, 'x'}));
        p.push_back(W({'_', 'a', 1}));
        p.push_back(W({'_', 0xfdd0}));
        p.push_back(ustr(1, u'_') + ustr(2048, u'x'));     // 2049 characters
    }
    return p;
}
const std::vector<ustr> &invalid_codes() {
    static std::vector<ustr> p;
    if (p.empty()) {
        p.push_back(U(""));
        p.push_back(U("a b"));
        p.push_back(W({'a', 0xffff}));
        p.push_back(W({0xdbff}));
        p.push_back(W({'a', 0x7f}));
        p.push_back(ustr(2044, u'c'));                     // > 2043 characters
    }
    return p;
}
const std::vector<NameClass> &key_pool() {
    static std::vector<NameClass> p;
    if (p.empty()) {
        p.push_back({{U("k")}});
        p.push_back({{U("K")}});
        p.push_back({{U("")}});
        p.push_back({{U(" ")}});
        p.push_back({{U("a b")}});
        p.push_back({{W({0xe9}), W({'e', 0x301})}});
        p.push_back({{W({0xc5}), W({'A', 0x30a}), W({0x212b})}});
        p.push_back({{W({0xac00}), W({0x1100, 0x1161})}});
        p.push_back({{U("it's")}});
        p.push_back({{U("say \"hi\"")}});
        p.push_back({{U("both ' and \"")}});
        p.push_back({{U("line\nbreak")}});
        p.push_back({{W({'s', 0x10428})}});
        p.push_back({{U("'''"), }});
        p.push_back({{U("key:colon")}});
        // canonically DISTINCT keys that are merely compatibility-equivalent (NFKC would merge them; table keys are compared under NFC)
        p.push_back({{cat(U("x"), W({0xb2}))}});        // x + SUPERSCRIPT TWO
        p.push_back({{U("x2")}});
        p.push_back({{cat(W({0xfb01}), U("n"))}});      // LATIN SMALL LIGATURE FI + n
        p.push_back({{U("fin")}});
        p.push_back({{W({0xff21})}});                   // FULLWIDTH LATIN CAPITAL LETTER A
        p.push_back({{U("A")}});
    }
    return p;
}
void pools_selfcheck() {
    auto check = [](const std::vector<NameClass> &pool, bool fold, bool item, const char *what) {
        std::map<ustr, size_t> seen;
        for (size_t i = 0; i < pool.size(); ++i) {
            ustr key = fold ? mnorm(pool[i].variants[0]) : mnfc(pool[i].variants[0]);
            for (auto &v : pool[i].variants) {
                ustr k = fold ? mnorm(v) : mnfc(v);
                if (k != key) { fprintf(stderr, "cifsim: pool %s class %zu: variant %s does not normalise like %s\n", what, i, u8(v).c_str(), u8(pool[i].variants[0]).c_str()); _exit(2); }
                if (fold && !m_valid_name(v, item)) { fprintf(stderr, "cifsim: pool %s: %s is not valid\n", what, u8(v).c_str()); _exit(2); }
            }
            if (seen.count(key)) { fprintf(stderr, "cifsim: pool %s: classes %zu and %zu collide\n", what, seen[key], i); _exit(2); }
            seen[key] = i;
        }
    };
    check(item_pool(), true, true, "item");
    check(code_pool(), true, false, "code");
    check(key_pool(), false, false, "key");
    for (auto &s : invalid_items()) if (m_valid_name(s, true)) { fprintf(stderr, "cifsim: invalid item pool entry %s is valid\n", u8(s).c_str()); _exit(2); }
    for (auto &s : invalid_codes()) if (m_valid_name(s, false)) { fprintf(stderr, "cifsim: invalid code pool entry %s is valid\n", u8(s).c_str()); _exit(2); }
}

// ------------------------------------------------------------------------------------------------ values
MValue *MValue::find_key(const ustr &key) {
    ustr k = mnfc(key);
    for (auto &e : entries) if (mnfc(e.first) == k) return &e.second;
    return NULL;
}
int MValue::depth() const {
    int d = 0;
    for (auto &e : elems) d = std::max(d, e.depth());
    for (auto &e : entries) d = std::max(d, e.second.depth());
    return (kind == CIF_LIST_KIND || kind == CIF_TABLE_KIND) ? d + 1 : 0;
}
size_t MValue::nodes() const {
    size_t n = 1;
    for (auto &e : elems) n += e.nodes();
    for (auto &e : entries) n += e.second.nodes();
    return n;
}
static void canon_into(const MValue &v, ValEq eq, std::string &o) {
    switch (v.kind) {
        case CIF_UNK_KIND: o += "?"; break;
        case CIF_NA_KIND: o += "."; break;
        case CIF_CHAR_KIND:
        case CIF_NUMB_KIND: {
            bool q = v.quoted;
            int k = v.kind;
            if (eq == VE_ROUNDTRIP) {
                if (k == CIF_NUMB_KIND && !q) k = CIF_CHAR_KIND;       // a number and an unquoted string with the same text
                if (k == CIF_NUMB_KIND && q) k = CIF_CHAR_KIND;        // a quoted number is written as a quoted string
                if (!q && !v.text.empty() && v.text[0] == ';') q = true;  // may come back quoted
            }
            o += (k == CIF_CHAR_KIND) ? (q ? "Q\"" : "U\"") : (q ? "NQ\"" : "N\"");
            o += u8(v.text); o += "\"";
            if (eq == VE_STRICT && v.kind == CIF_NUMB_KIND && v.has_num) {
                uint64_t a, b; memcpy(&a, &v.number, 8); memcpy(&b, &v.su, 8);
                o += strprintf("<%016llx,%016llx>", (unsigned long long) a, (unsigned long long) b);
            }
            break;
        }
        case CIF_LIST_KIND:
            o += "[";
            for (auto &e : v.elems) { canon_into(e, eq, o); o += " "; }
            o += "]";
            break;
        case CIF_TABLE_KIND: {
            std::vector<std::pair<ustr, std::string>> es;
            for (auto &e : v.entries) { std::string s; s += "\"" + u8(e.first) + "\":"; canon_into(e.second, eq, s); es.push_back({mnfc(e.first), s}); }
            std::sort(es.begin(), es.end());
            o += "{";
            for (auto &e : es) { o += e.second; o += " "; }
            o += "}";
            break;
        }
        default: o += strprintf("<kind %d>", v.kind);
    }
}
std::string canon(const MValue &v, ValEq eq) { std::string o; canon_into(v, eq, o); return o; }
std::string show(const MValue &v, size_t maxlen) { std::string s = canon(v, VE_STRICT); if (s.size() > maxlen) { s.resize(maxlen); s += "..."; } return s; }

// the number grammar of CIF (optional sign, digits with an optional decimal point - at least one digit -, optional exponent, optional su)
bool valid_cif_number(const ustr &t) {
    size_t i = 0, n = t.size();
    if (i < n && (t[i] == '+' || t[i] == '-')) ++i;
    size_t d0 = i; while (i < n && t[i] >= '0' && t[i] <= '9') ++i; size_t nd = i - d0;
    if (i < n && t[i] == '.') { ++i; size_t f0 = i; while (i < n && t[i] >= '0' && t[i] <= '9') ++i; nd += i - f0; }
    if (nd == 0) return false;
    if (i < n && (t[i] == 'e' || t[i] == 'E')) { ++i; if (i < n && (t[i] == '+' || t[i] == '-')) ++i; size_t e0 = i; while (i < n && t[i] >= '0' && t[i] <= '9') ++i; if (i == e0) return false; }
    if (i < n && t[i] == '(') { ++i; size_t s0 = i; while (i < n && t[i] >= '0' && t[i] <= '9') ++i; if (i == s0 || i >= n || t[i] != ')') return false; ++i; }
    return i == n;
}
std::vector<std::string> *g_classify_problems = NULL;
MValue snapshot_value(cif_value_tp *v) {
    MValue m;
    if (!v) VIOLATE("snapshot", "null", "NULL value where a value object was promised");
    m.kind = cif_value_kind(v);
    switch (m.kind) {
        case CIF_UNK_KIND: case CIF_NA_KIND: break;
        case CIF_CHAR_KIND: case CIF_NUMB_KIND: {
            UChar *t = NULL;
            int rc = cif_value_get_text(v, &t);
            if (rc != CIF_OK || !t) VIOLATE("snapshot", "get_text", "cif_value_get_text -> %s text=%p on a value of kind %d", rc_name(rc), (void *) t, m.kind);
            m.text = from_uchar(t); lib_free(t);
            m.quoted = cif_value_is_quoted(v) != CIF_NOT_QUOTED;
            if (g_classify_problems && m.kind == CIF_CHAR_KIND && !m.quoted) {
                // which whitespace-delimited values are numbers is decided on demand (cif_value_get_number coerces): asked of a copy, the
                // answer must be "a number" exactly for the texts the CIF number grammar derives, and must leave the text alone
                cif_value_tp *c = NULL;
                if (cif_value_clone(v, &c) == CIF_OK && c) {
                    double d = 0; int rc = cif_value_get_number(c, &d); bool want = valid_cif_number(m.text);
                    if ((rc == CIF_OK) != want || (rc != CIF_OK && rc != CIF_INVALID_NUMBER)) g_classify_problems->push_back(strprintf("the unquoted value %s %s a number by the CIF grammar, but cif_value_get_number returns %s", u8(m.text.substr(0, 60)).c_str(), want ? "is" : "is not", rc_name(rc)));
                    else if (rc == CIF_OK) { UChar *t2 = NULL; if (cif_value_get_text(c, &t2) == CIF_OK && t2) { if (from_uchar(t2) != m.text || cif_value_kind(c) != CIF_NUMB_KIND) g_classify_problems->push_back(strprintf("coercing %s to a number changed its text or did not make it a number", u8(m.text.substr(0, 60)).c_str())); lib_free(t2); } }
                    cif_value_free(c);
                }
            }
            if (m.kind == CIF_NUMB_KIND) {
                double d = 0, s = 0;
                int r1 = cif_value_get_number(v, &d), r2 = cif_value_get_su(v, &s);
                if (r1 != CIF_OK || r2 != CIF_OK) VIOLATE("snapshot", "get_number", "get_number/get_su -> %s/%s on a NUMB value", rc_name(r1), rc_name(r2));
                m.has_num = true; m.number = d; m.su = s;
            }
            break;
        }
        case CIF_LIST_KIND: {
            size_t n = 0;
            int rc = cif_value_get_element_count(v, &n);
            if (rc != CIF_OK) VIOLATE("snapshot", "count", "get_element_count -> %s on a LIST", rc_name(rc));
            for (size_t i = 0; i < n; ++i) {
                cif_value_tp *e = NULL;
                rc = cif_value_get_element_at(v, i, &e);
                if (rc != CIF_OK || !e) VIOLATE("snapshot", "element", "get_element_at(%zu of %zu) -> %s", i, n, rc_name(rc));
                m.elems.push_back(snapshot_value(e));
            }
            break;
        }
        case CIF_TABLE_KIND: {
            const UChar **keys = NULL;
            int rc = cif_value_get_keys(v, &keys);
            if (rc != CIF_OK || !keys) VIOLATE("snapshot", "keys", "get_keys -> %s", rc_name(rc));
            struct KeysGuard { const UChar **&k; ~KeysGuard() { if (k) { lib_free(k); k = NULL; } } } guard{keys};   // released also when a nested snapshot throws
            size_t n = 0, cnt = 0;
            if (cif_value_get_element_count(v, &cnt) != CIF_OK) cnt = (size_t) -1;
            for (const UChar **k = keys; *k; ++k) {
                ++n;
                cif_value_tp *e = NULL;
                rc = cif_value_get_item_by_key(v, *k, &e);
                if (rc != CIF_OK || !e) { std::string ks = u8(*k); VIOLATE("snapshot", "bykey", "get_item_by_key(%s) -> %s for an enumerated key", ks.c_str(), rc_name(rc)); }
                m.entries.push_back({from_uchar(*k), snapshot_value(e)});
            }
            if (n != cnt) VIOLATE("snapshot", "keycount", "table enumerates %zu keys but reports %zu elements", n, cnt);
            break;
        }
        default:
            VIOLATE("snapshot", "kind", "value has undefined kind %d", m.kind);
    }
    return m;
}

cif_value_tp *build_value(const MValue &spec, int *rcp) {
    cif_value_tp *v = NULL;
    int rc = CIF_OK;
    switch (spec.kind) {
        case CIF_UNK_KIND: rc = cif_value_create(CIF_UNK_KIND, &v); break;
        case CIF_NA_KIND: rc = cif_value_create(CIF_NA_KIND, &v); break;
        case CIF_CHAR_KIND:
            rc = cif_value_create(CIF_UNK_KIND, &v);
            if (rc == CIF_OK) rc = cif_value_copy_char(v, UC(spec.text));
            if (rc == CIF_OK && !spec.quoted) rc = cif_value_set_quoted(v, CIF_NOT_QUOTED);
            break;
        case CIF_NUMB_KIND:
            rc = cif_value_create(CIF_UNK_KIND, &v);
            if (rc == CIF_OK) {
                UChar *t = lib_ustrdup(spec.text);
                rc = cif_value_parse_numb(v, t);
                if (rc != CIF_OK) lib_free(t);
                else if (spec.quoted) rc = cif_value_set_quoted(v, CIF_QUOTED);
            }
            break;
        case CIF_LIST_KIND:
            rc = cif_value_create(CIF_LIST_KIND, &v);
            for (size_t i = 0; rc == CIF_OK && i < spec.elems.size(); ++i) {
                int r2 = CIF_OK;
                cif_value_tp *e = build_value(spec.elems[i], &r2);
                if (!e) { rc = r2; break; }
                rc = cif_value_insert_element_at(v, i, e);
                cif_value_free(e);
            }
            break;
        case CIF_TABLE_KIND:
            rc = cif_value_create(CIF_TABLE_KIND, &v);
            for (size_t i = 0; rc == CIF_OK && i < spec.entries.size(); ++i) {
                int r2 = CIF_OK;
                cif_value_tp *e = build_value(spec.entries[i].second, &r2);
                if (!e) { rc = r2; break; }
                rc = cif_value_set_item_by_key(v, UC(spec.entries[i].first), e);
                cif_value_free(e);
            }
            break;
        default: rc = CIF_ARGUMENT_ERROR;
    }
    if (rc != CIF_OK) { if (v) cif_value_free(v); v = NULL; }
    if (rcp) *rcp = rc;
    return v;
}

// ------------------------------------------------------------------------------------------------ containers
MCont *find_cont(MCont &c, uint64_t uid) {
    if (c.uid == uid) return &c;
    for (auto &f : c.frames) if (MCont *r = find_cont(f, uid)) return r;
    return NULL;
}
MCont *find_cont(MCif &c, uint64_t uid) {
    for (auto &b : c.blocks) if (MCont *r = find_cont(b, uid)) return r;
    return NULL;
}
static std::string canon_loop(const MLoop &l, const DumpOpts &o) {
    std::string s = "loop<";
    if (o.ignore_category) s += l.is_scalar() ? "scalar" : "-";
    else s += l.has_cat ? ("\"" + u8(l.cat) + "\"") : std::string("null");
    s += ">(";
    std::vector<std::string> ns;
    for (auto &n : l.names) ns.push_back(u8(o.names_by_norm ? n.norm : n.orig));
    std::sort(ns.begin(), ns.end());
    for (auto &n : ns) { s += n; s += " "; }
    s += "){";
    std::vector<std::string> ps;
    for (auto &p : l.packets) {
        std::string t = "(";
        for (auto &n : l.names) {       // names sorted by norm for a stable column order
            (void) n;
        }
        std::vector<ustr> norms;
        for (auto &n : l.names) norms.push_back(n.norm);
        std::sort(norms.begin(), norms.end());
        for (auto &nn : norms) {
            auto it = p.vals.find(nn);
            t += u8(nn); t += "=";
            if (it == p.vals.end() || !it->second) t += "?"; else t += canon(*it->second, o.eq);
            t += " ";
        }
        t += ")";
        ps.push_back(t);
    }
    std::sort(ps.begin(), ps.end());
    for (auto &p : ps) { s += p; s += "\n"; }
    s += "}";
    return s;
}
std::string canon(const MCont &c, const DumpOpts &o, int depth) {
    std::string s = (depth ? "frame " : "block ");
    s += "\"" + u8(o.codes_by_norm ? c.code_norm : c.code_orig) + "\" {\n";
    std::vector<std::string> fs, ls;
    for (auto &f : c.frames) fs.push_back(canon(f, o, depth + 1));
    std::sort(fs.begin(), fs.end());
    for (auto &f : fs) s += f;
    for (auto &l : c.loops) { if (o.drop_empty_loops && l.packets.empty()) continue; ls.push_back(canon_loop(l, o)); }
    std::sort(ls.begin(), ls.end());
    for (auto &l : ls) { s += l; s += "\n"; }
    s += "}\n";
    return s;
}
std::string canon(const MCif &c, const DumpOpts &o) {
    std::vector<std::string> bs;
    for (auto &b : c.blocks) bs.push_back(canon(b, o, 0));
    std::sort(bs.begin(), bs.end());
    std::string s;
    for (auto &b : bs) s += b;
    return s;
}
std::string first_diff(const std::string &a, const std::string &b) {
    size_t i = 0;
    while (i < a.size() && i < b.size() && a[i] == b[i]) ++i;
    size_t from = i > 60 ? i - 60 : 0;
    auto clip = [&](const std::string &s) { std::string t = s.substr(from, 160); for (char &ch : t) if (ch == '\n') ch = '|'; return t; };
    return strprintf("at offset %zu: expected ...%s... observed ...%s...", i, clip(a).c_str(), clip(b).c_str());
}

#define DUMP_FAIL(what, ...) throw Violation(std::string(prefix) + ".dump", what, strprintf(__VA_ARGS__))
static MLoop dump_loop(cif_loop_tp *loop, const char *prefix) {
    MLoop m;
    UChar *catp = NULL;
    int rc = cif_loop_get_category(loop, &catp);
    if (rc != CIF_OK) DUMP_FAIL("get_category", "cif_loop_get_category -> %s", rc_name(rc));
    if (catp) { m.has_cat = true; m.cat = from_uchar(catp); lib_free(catp); }
    UChar **names = NULL;
    rc = cif_loop_get_names(loop, &names);
    if (rc != CIF_OK || !names) DUMP_FAIL("get_names", "cif_loop_get_names -> %s", rc_name(rc));
    for (UChar **n = names; *n; ++n) { MName mn; mn.orig = from_uchar(*n); mn.norm = mnorm(mn.orig); m.names.push_back(mn); lib_free(*n); }
    lib_free(names);
    if (m.names.empty()) DUMP_FAIL("no_names", "a loop without any item name is visible");
    cif_pktitr_tp *it = NULL;
    rc = cif_loop_get_packets(loop, &it);
    if (rc == CIF_EMPTY_LOOP) return m;
    if (rc != CIF_OK || !it) DUMP_FAIL("get_packets", "cif_loop_get_packets -> %s", rc_name(rc));
    cif_packet_tp *pkt = NULL;
    try {
        for (;;) {
            rc = cif_pktitr_next_packet(it, &pkt);
            if (rc == CIF_FINISHED) break;
            if (rc != CIF_OK || !pkt) DUMP_FAIL("next_packet", "cif_pktitr_next_packet -> %s", rc_name(rc));
            MPacket mp;
            const UChar **pn = NULL;
            rc = cif_packet_get_names(pkt, &pn);
            if (rc != CIF_OK || !pn) DUMP_FAIL("packet_names", "cif_packet_get_names -> %s", rc_name(rc));
            size_t cnt = 0;
            for (const UChar **n = pn; *n; ++n) {
                ++cnt;
                cif_value_tp *val = NULL;
                rc = cif_packet_get_item(pkt, *n, &val);
                if (rc != CIF_OK || !val) { lib_free(pn); DUMP_FAIL("packet_item", "cif_packet_get_item(%s) -> %s", u8(*n).c_str(), rc_name(rc)); }
                ustr norm = mnorm(from_uchar(*n));
                if (m.find(norm) < 0) { lib_free(pn); DUMP_FAIL("foreign_item", "iterated packet holds item %s which is not in its loop", u8(*n).c_str()); }
                if (mp.vals.count(norm)) { lib_free(pn); DUMP_FAIL("dup_item", "iterated packet holds item %s twice", u8(*n).c_str()); }
                try { mp.vals[norm] = snapshot_value(val); }
                catch (Violation &v) { lib_free(pn); throw Violation(std::string(prefix) + ".dump", "value:" + v.sig, v.detail); }
            }
            lib_free(pn);
            if (cnt != m.names.size()) DUMP_FAIL("packet_width", "iterated packet has %zu items, its loop has %zu", cnt, m.names.size());
            m.packets.push_back(mp);
            if (m.packets.size() > 100000) DUMP_FAIL("endless", "iterator delivered more than 100000 packets");
        }
    } catch (...) {
        if (pkt) cif_packet_free(pkt);
        int r = cif_pktitr_abort(it); (void) r;
        throw;
    }
    if (pkt) cif_packet_free(pkt);
    rc = cif_pktitr_abort(it);
    if (rc != CIF_OK) DUMP_FAIL("abort", "cif_pktitr_abort after a read-only iteration -> %s", rc_name(rc));
    return m;
}
static MCont dump_cont_rec(cif_container_tp *c, const char *prefix, int depth) {
    MCont m;
    UChar *code = NULL;
    int rc = cif_container_get_code(c, &code);
    if (rc != CIF_OK || !code) DUMP_FAIL("get_code", "cif_container_get_code -> %s", rc_name(rc));
    m.code_orig = from_uchar(code); m.code_norm = mnorm(m.code_orig); lib_free(code);
    rc = cif_container_assert_block(c);
    if ((depth == 0) != (rc == CIF_OK)) DUMP_FAIL("assert_block", "cif_container_assert_block -> %s at depth %d", rc_name(rc), depth);
    if (depth > 64) DUMP_FAIL("depth", "container nesting deeper than 64");
    cif_container_tp **frames = NULL;
    rc = cif_container_get_all_frames(c, &frames);
    if (rc != CIF_OK || !frames) DUMP_FAIL("get_all_frames", "cif_container_get_all_frames -> %s", rc_name(rc));
    std::unique_ptr<Violation> pending;
    for (cif_container_tp **f = frames; *f; ++f) {
        if (!pending) { try { m.frames.push_back(dump_cont_rec(*f, prefix, depth + 1)); } catch (Violation &v) { pending.reset(new Violation(v)); } }
        cif_container_free(*f);
    }
    lib_free(frames);
    if (pending) throw *pending;
    cif_loop_tp **loops = NULL;
    rc = cif_container_get_all_loops(c, &loops);
    if (rc != CIF_OK || !loops) DUMP_FAIL("get_all_loops", "cif_container_get_all_loops -> %s", rc_name(rc));
    for (cif_loop_tp **l = loops; *l; ++l) {
        if (!pending) { try { m.loops.push_back(dump_loop(*l, prefix)); } catch (Violation &v) { pending.reset(new Violation(v)); } }
        cif_loop_free(*l);
    }
    lib_free(loops);
    if (pending) throw *pending;
    // structural invariants of the documented data model
    std::set<ustr> seen; int scalars = 0;
    for (auto &l : m.loops) {
        for (auto &n : l.names) { if (!seen.insert(n.norm).second) throw Violation(std::string(prefix) + ".invariant", "dup_name", strprintf("item %s occurs twice in container %s", u8(n.orig).c_str(), u8(m.code_orig).c_str())); }
        if (l.is_scalar()) { ++scalars; if (l.packets.size() > 1) throw Violation(std::string(prefix) + ".invariant", "scalar_packets", strprintf("the scalar loop of %s holds %zu packets", u8(m.code_orig).c_str(), l.packets.size())); }
    }
    if (scalars > 1) throw Violation(std::string(prefix) + ".invariant", "two_scalar_loops", strprintf("container %s has %d scalar loops", u8(m.code_orig).c_str(), scalars));
    std::set<ustr> fc;
    for (auto &f : m.frames) if (!fc.insert(f.code_norm).second) throw Violation(std::string(prefix) + ".invariant", "dup_frame", strprintf("frame code %s occurs twice", u8(f.code_orig).c_str()));
    return m;
}
MCont dump_container(cif_container_tp *c, const char *prefix) { return dump_cont_rec(c, prefix, c && cif_container_assert_block(c) == CIF_OK ? 0 : 1); }
MCif dump_cif(cif_tp *cif, const char *prefix) {
    MCif m;
    cif_block_tp **blocks = NULL;
    int rc = cif_get_all_blocks(cif, &blocks);
    if (rc != CIF_OK || !blocks) DUMP_FAIL("get_all_blocks", "cif_get_all_blocks -> %s", rc_name(rc));
    std::unique_ptr<Violation> pending;
    for (cif_block_tp **b = blocks; *b; ++b) {
        if (!pending) { try { m.blocks.push_back(dump_cont_rec(*b, prefix, 0)); } catch (Violation &v) { pending.reset(new Violation(v)); } }
        cif_container_free(*b);
    }
    lib_free(blocks);
    if (pending) throw *pending;
    std::set<ustr> bc;
    for (auto &b : m.blocks) if (!bc.insert(b.code_norm).second) throw Violation(std::string(prefix) + ".invariant", "dup_block", strprintf("block code %s occurs twice", u8(b.code_orig).c_str()));
    // every block that is enumerated can be looked up by the very code it reports (also the anonymous block and blocks with
    // invalid codes that parser recovery creates: cif_get_block matches on the normalised form and does not validate)
    for (auto &b : m.blocks) {
        cif_block_tp *h = NULL; int q = cif_get_block(cif, UC(b.code_orig), &h);
        if (h) cif_container_free(h);
        if (q != CIF_OK) throw Violation(std::string(prefix) + ".invariant", strprintf("get_block:%s", rc_name(q)), strprintf("block %s is enumerated by cif_get_all_blocks but cif_get_block with that code returns %s", u8(b.code_orig).c_str(), rc_name(q)));
    }
    return m;
}
