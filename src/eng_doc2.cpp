// eng_doc2.cpp -- doc engine, part 2:
//   C12: one planted defect of a documented class -> documented first code, line window, documented recovery
//   C15: parse-time handler programs in storing and syntax-only mode against a reference event generator
//   C11: CIF version / encoding decision table
#include "doceng.hpp"
#include <unicode/ucnv.h>

#define DVIOLATE(clause, sig, ...) throw Violation(std::string(prop) + "." + (clause), (sig), strprintf(__VA_ARGS__), -1)

static size_t line_of(const ustr &t, size_t off) { size_t l = 1; for (size_t i = 0; i < off && i < t.size(); ++i) if (t[i] == '\n') ++l; return l; }
static std::string snippet(const ustr &t, size_t max = 500) { return u8(t.size() > max ? t.substr(0, max) : t); }

// ------------------------------------------------------------------------------------------------ C12
enum DefectClass { DF_MISSING_VALUE, DF_DUP_SCALAR, DF_DUP_LOOP_NAME, DF_DUP_BLOCK, DF_DUP_FRAME, DF_NO_BLOCK_HEADER, DF_PARTIAL_PACKET, DF_NULL_LOOP, DF_EMPTY_LOOP,
    DF_MISSING_ENDQUOTE, DF_UNCLOSED_TEXT, DF_UNCLOSED_TRIPLE, DF_MISSING_SPACE_LIST, DF_MISSING_SPACE_NAME, DF_STRAY_DELIM, DF_MISSING_DELIM_LIST, DF_MISSING_DELIM_TABLE,
    DF_MISSING_KEY, DF_NULL_KEY, DF_UNQUOTED_KEY, DF_TEXT_KEY, DF_RESERVED_WORD, DF_NO_FRAME_TERM, DF_UNEXPECTED_TERM, DF_FRAME_NOT_ALLOWED, DF_OVERLENGTH, DF_LENGTH_OK_CONTROL,
    DF_DISALLOWED_CHAR_COMMENT, DF_DISALLOWED_CHAR_VALUE, DF_DUP_IN_HEADER, DF_COUNT };
static const char *const DFN[] = { "missing_value", "dup_scalar", "dup_loop_name", "dup_block", "dup_frame", "no_block_header", "partial_packet", "null_loop", "empty_loop",
    "missing_endquote", "unclosed_text", "unclosed_triple", "missing_space_list", "missing_space_name", "stray_delim", "missing_delim_list", "missing_delim_table",
    "missing_key", "null_key", "unquoted_key", "text_key", "reserved_word", "no_frame_term", "unexpected_term", "frame_not_allowed", "overlength", "length_ok_control",
    "disallowed_char_comment", "disallowed_char_value", "dup_in_header" };

struct ItemSite { int ord; DItem *item; std::vector<DItem> *siblings; size_t index; int block; bool in_frame; };
struct Plant {
    Doc doc; ustr text; std::vector<Tok> toks;            // doc is mutated into the *expected* document
    int code = 0; size_t defect_off = 0, next_off = 0;     // line window: line_of(defect_off) <= reported <= line_of(next_off)
    bool no_more = true; bool accept_empty_loop_absent = false; ParseOpts opts; int extra_errors_allowed = 0;
    std::vector<ustr> alt_texts;                           // for disallowed-character: the value may come back with a replacement
    std::string where;
};
static void collect_sites(Doc &d, std::vector<ItemSite> &out) {
    int ord = 0;
    std::function<void(std::vector<DItem> &, int, bool)> rec = [&](std::vector<DItem> &v, int blk, bool inf) { for (size_t i = 0; i < v.size(); ++i) { out.push_back({ord++, &v[i], &v, i, blk, inf}); if (v[i].kind == D_FRAME) rec(v[i].items, blk, true); } };
    for (size_t b = 0; b < d.blocks.size(); ++b) { ++ord; rec(d.blocks[b].items, (int) b, false); }
}
// token helpers on the ORIGINAL layout
static std::vector<size_t> toks_of(const std::vector<Tok> &toks, int ord) { std::vector<size_t> v; for (size_t i = 0; i < toks.size(); ++i) if (toks[i].item == ord && toks[i].kind != T_WS) v.push_back(i); return v; }
// groups of tokens forming one top-level value each
static std::vector<std::pair<size_t, size_t>> value_groups(const std::vector<Tok> &toks, const std::vector<size_t> &idx) {
    std::vector<std::pair<size_t, size_t>> g; int depth = 0; size_t start = 0;
    for (size_t k = 0; k < idx.size(); ++k) {
        const Tok &t = toks[idx[k]];
        if (depth == 0 && (t.kind == T_VALUE)) g.push_back({idx[k], idx[k]});
        else if (t.kind == T_LIST_OPEN || t.kind == T_TABLE_OPEN) { if (depth == 0) start = idx[k]; ++depth; }
        else if (t.kind == T_LIST_CLOSE || t.kind == T_TABLE_CLOSE) { --depth; if (depth == 0) g.push_back({start, idx[k]}); }
    }
    return g;
}
static size_t next_token_start(const std::vector<Tok> &toks, size_t after_tok, size_t text_size) { for (size_t i = after_tok + 1; i < toks.size(); ++i) if (toks[i].kind != T_WS) return toks[i].start; return text_size; }
// end offset of the last non-whitespace token of block b / of frame item (before its terminator)
static size_t block_end_off(const std::vector<Tok> &toks, int b) {
    int seen = -1; size_t end = 0;
    for (size_t i = 0; i < toks.size(); ++i) { if (toks[i].kind == T_BLOCK) ++seen; if (seen == b && toks[i].kind != T_WS) end = toks[i].end; if (seen > b) break; }
    return end;
}
static ustr fresh_name(const char *base) { return U(base); }

static bool plant(Plant &p, int cls, Rng &r) {
    std::vector<ItemSite> sites; collect_sites(p.doc, sites);
    const std::vector<Tok> &T = p.toks;
    auto insert_at = [&](size_t off, const ustr &s) { p.text.insert(off, s); };
    auto pick = [&](std::function<bool(const ItemSite &)> f) -> const ItemSite * { std::vector<const ItemSite *> c; for (auto &s : sites) if (f(s)) c.push_back(&s); return c.empty() ? NULL : c[r.below(c.size())]; };
    bool v2 = p.doc.version >= 2;
    if (p.doc.blocks.empty()) return false;
    int b = (int) r.below(p.doc.blocks.size());
    size_t bend = block_end_off(T, b);
    // most probe-based classes append " <probe>" at the end of block b
    auto probe = [&](const ustr &txt, int code, std::function<void(DBlock &)> expect) {
        ustr ins = (r.chance(1, 2) ? U("\n") : U(" ")) + txt;
        insert_at(bend, ins); p.code = code; p.defect_off = bend + 1; p.next_off = next_token_start(T, 0, 0);   // fixed below
        // next token after the probe: the first non-ws token of the original text at or after bend
        size_t nxt = p.text.size(); for (auto &t : T) if (t.kind != T_WS && t.start >= bend) { nxt = t.start + ins.size(); break; }
        p.next_off = nxt; expect(p.doc.blocks[(size_t) b]); p.where = "block_end";
    };
    auto add_scalar = [&](DBlock &blk, const char *name, const MValue &v) { DItem it; it.kind = D_SCALAR; it.name = U(name); it.value = v; blk.items.push_back(it); };
    switch (cls) {
        case DF_MISSING_VALUE: {
            const ItemSite *s = pick([&](const ItemSite &x) { return x.item->kind == D_SCALAR; }); if (!s) return false;
            std::vector<size_t> idx = toks_of(T, s->ord); auto g = value_groups(T, idx); if (g.size() != 1) return false;
            size_t a = T[g[0].first].start, e = T[g[0].second].end;
            // a text-field value carries its own leading newline: keep one
            p.text.erase(a, e - a); p.code = CIF_MISSING_VALUE; p.defect_off = T[idx[0]].start; size_t nxt = next_token_start(T, g[0].second, p.text.size() + (e - a)); p.next_off = nxt - (e - a);
            s->item->value = MValue::unk(); p.where = s->in_frame ? "in_frame" : "in_block"; return true;
        }
        case DF_DUP_SCALAR: {
            const ItemSite *s = pick([&](const ItemSite &x) { return x.item->kind == D_SCALAR; }); if (!s) return false;
            std::vector<size_t> idx = toks_of(T, s->ord); if (idx.empty()) return false;
            size_t at = T[idx.back()].end;
            // another spelling of the same name
            ustr alt = s->item->name; for (auto &c : item_pool()) if (mnorm(c.variants[0]) == mnorm(alt)) alt = c.variants[r.below(c.variants.size())];
            if (!v2) for (char16_t ch : alt) if (ch > 0x7e) alt = s->item->name;
            ustr ins = U(" ") + alt + U(" 'second occurrence'");
            insert_at(at, ins); p.code = CIF_DUP_ITEMNAME; p.defect_off = at + 1; p.next_off = at + 1 + alt.size() + 1; p.where = s->in_frame ? "in_frame" : "in_block"; return true;
        }
        case DF_DUP_LOOP_NAME: {
            // a loop that follows (in the same container) a scalar: the scalar's name is added as a last header name, with one more value per packet
            const ItemSite *l = pick([&](const ItemSite &x) { if (x.item->kind != D_LOOP) return false; for (size_t i = 0; i < x.index; ++i) if ((*x.siblings)[i].kind == D_SCALAR) return true; return false; }); if (!l) return false;
            ustr nm; for (size_t i = 0; i < l->index; ++i) if ((*l->siblings)[i].kind == D_SCALAR) nm = (*l->siblings)[i].name;
            std::vector<size_t> idx = toks_of(T, l->ord); auto g = value_groups(T, idx); size_t m = l->item->names.size(); if (g.size() != m * l->item->packets.size()) return false;
            // insert from the back so that offsets stay valid
            for (size_t k = g.size(); k-- > 0;) if (k % m == m - 1) insert_at(T[g[k].second].end, U(" dropped"));
            size_t last_name = 0; for (size_t k : idx) if (T[k].kind == T_NAME) last_name = k;
            insert_at(T[last_name].end, U(" ") + nm);
            p.code = CIF_DUP_ITEMNAME; p.defect_off = T[last_name].end + 1; p.next_off = T[last_name].end + 1 + nm.size() + 1; p.where = "loop_header"; return true;
        }
        case DF_DUP_IN_HEADER: {
            // the same name twice within one loop header: the whole loop is dropped
            const ItemSite *l = pick([&](const ItemSite &x) { return x.item->kind == D_LOOP; }); if (!l) return false;
            std::vector<size_t> idx = toks_of(T, l->ord); auto g = value_groups(T, idx); size_t m = l->item->names.size(); if (g.size() != m * l->item->packets.size()) return false;
            for (size_t k = g.size(); k-- > 0;) if (k % m == m - 1) insert_at(T[g[k].second].end, U(" again"));
            size_t last_name = 0; for (size_t k : idx) if (T[k].kind == T_NAME) last_name = k;
            ustr nm = l->item->names[r.below(m)];
            insert_at(T[last_name].end, U(" ") + nm);
            p.code = CIF_DUP_ITEMNAME; p.defect_off = T[idx[0]].start; size_t endoff = T[idx.back()].end; p.next_off = p.text.size(); (void) endoff;
            l->siblings->erase(l->siblings->begin() + (long) l->index); p.where = "loop_header_self"; return true;
        }
        case DF_DUP_BLOCK: {
            ustr code = p.doc.blocks[(size_t) b].code; for (auto &c : code_pool()) if (mnorm(c.variants[0]) == mnorm(code)) code = c.variants[r.below(c.variants.size())];
            if (!v2) code = p.doc.blocks[(size_t) b].code;
            size_t at = p.text.size(); while (at > 0 && (p.text[at - 1] == ' ' || p.text[at - 1] == '\t')) --at;
            ustr ins = U("\ndata_") + code + U(" _dup_probe 5\n");
            p.text += ins; p.code = CIF_DUP_BLOCKCODE; p.defect_off = p.text.size() - ins.size() + 1; p.next_off = p.defect_off + 5 + code.size() + 1;
            add_scalar(p.doc.blocks[(size_t) b], "_dup_probe", MValue::numb(U("5"))); p.where = "doc_end"; return true;
        }
        case DF_DUP_FRAME: {
            const ItemSite *f = pick([&](const ItemSite &x) { return x.item->kind == D_FRAME && !x.in_frame; }); if (!f) return false;
            ustr code = f->item->code; for (auto &c : code_pool()) if (mnorm(c.variants[0]) == mnorm(code)) code = c.variants[r.below(c.variants.size())];
            if (!v2) code = f->item->code;
            size_t be = block_end_off(T, f->block);
            ustr ins = U(" save_") + code + U(" _dup_probe 5 save_");
            insert_at(be, ins); p.code = CIF_DUP_FRAMECODE; p.defect_off = be + 1; p.next_off = be + 1 + 5 + code.size() + 1;
            DItem it; it.kind = D_SCALAR; it.name = U("_dup_probe"); it.value = MValue::numb(U("5")); f->item->items.push_back(it); p.where = "block_end"; return true;
        }
        case DF_NO_BLOCK_HEADER: {
            size_t at = 0; for (auto &t : T) if (t.kind == T_MAGIC) { at = t.end; while (at < p.text.size() && p.text[at] != '\n') ++at; if (at < p.text.size()) ++at; }   // after the magic line's newline
            ustr ins = U(" _orphan 7 ");
            insert_at(at, ins); p.code = CIF_NO_BLOCK_HEADER; p.defect_off = at + 1; p.next_off = at + 9;
            DBlock nb; nb.code = ustr(); add_scalar(nb, "_orphan", MValue::numb(U("7"))); p.doc.blocks.insert(p.doc.blocks.begin(), nb); p.where = "doc_start"; return true;
        }
        case DF_PARTIAL_PACKET: {
            const ItemSite *l = pick([&](const ItemSite &x) { return x.item->kind == D_LOOP && x.item->names.size() >= 2; }); if (!l) return false;
            std::vector<size_t> idx = toks_of(T, l->ord); auto g = value_groups(T, idx); size_t m = l->item->names.size(); if (g.size() != m * l->item->packets.size()) return false;
            size_t k = (size_t) r.range(1, (long) m - 1);
            size_t a = T[g[g.size() - k].first].start, e = T[g.back().second].end;
            size_t nxt = next_token_start(T, g.back().second, p.text.size());
            p.text.erase(a, e - a); p.code = CIF_PARTIAL_PACKET; p.defect_off = T[g[g.size() - k - 1].first].start; p.next_off = nxt - (e - a);
            for (size_t q = m - k; q < m; ++q) l->item->packets.back()[q] = MValue::unk();
            p.where = l->in_frame ? "in_frame" : "in_block"; return true;
        }
        case DF_NULL_LOOP: probe(U("loop_"), CIF_NULL_LOOP, [](DBlock &) {}); return true;
        case DF_EMPTY_LOOP: probe(U("loop_ _empty_probe1 _empty_probe2"), CIF_EMPTY_LOOP, [](DBlock &) {}); p.accept_empty_loop_absent = true; return true;
        case DF_MISSING_ENDQUOTE: probe(U("_q_probe 'abc def\n"), CIF_MISSING_ENDQUOTE, [&](DBlock &blk) { add_scalar(blk, "_q_probe", MValue::chr(U("abc def"), true)); }); return true;
        case DF_UNCLOSED_TEXT: case DF_UNCLOSED_TRIPLE: {
            if (cls == DF_UNCLOSED_TRIPLE && !v2) return false;
            b = (int) p.doc.blocks.size() - 1;
            size_t at = p.text.size();
            // must be the last thing in the input; the leading newline also ends a trailing comment, if any
            ustr ins = cls == DF_UNCLOSED_TEXT ? U("\n_t_probe\n;text line\nmore") : U("\n_t_probe '''abc\ndef");
            p.text += ins; p.code = CIF_UNCLOSED_TEXT; p.defect_off = at + 1; p.next_off = p.text.size();
            // only valid if the probe lands in the last block's top level (not inside an unterminated frame): it does, the host is well formed
            add_scalar(p.doc.blocks[(size_t) b], "_t_probe", MValue::chr(cls == DF_UNCLOSED_TEXT ? U("text line\nmore") : U("abc\ndef"), true)); p.where = "doc_end"; return true;
        }
        case DF_MISSING_SPACE_LIST: if (!v2) return false;
            probe(U("_m_probe ['x''y']"), CIF_MISSING_SPACE, [&](DBlock &blk) { MValue l; l.kind = CIF_LIST_KIND; l.elems.push_back(MValue::chr(U("x"), true)); l.elems.push_back(MValue::chr(U("y"), true)); add_scalar(blk, "_m_probe", l); }); return true;
        case DF_MISSING_SPACE_NAME: if (!v2) return false;
            probe(U("_m_probe 'x'_m_probe2 2"), CIF_MISSING_SPACE, [&](DBlock &blk) { add_scalar(blk, "_m_probe", MValue::chr(U("x"), true)); add_scalar(blk, "_m_probe2", MValue::numb(U("2"))); }); return true;
        case DF_STRAY_DELIM: if (!v2) return false; probe(r.chance(1, 2) ? U("]") : U("}"), CIF_UNEXPECTED_DELIM, [](DBlock &) {}); return true;
        case DF_MISSING_DELIM_LIST: if (!v2) return false;
            probe(U("_l_probe [1 2"), CIF_MISSING_DELIM, [&](DBlock &blk) { MValue l; l.kind = CIF_LIST_KIND; l.elems.push_back(MValue::numb(U("1"))); l.elems.push_back(MValue::numb(U("2"))); add_scalar(blk, "_l_probe", l); }); return true;
        case DF_MISSING_DELIM_TABLE: if (!v2) return false;
            probe(U("_l_probe {'k':1"), CIF_MISSING_DELIM, [&](DBlock &blk) { MValue t; t.kind = CIF_TABLE_KIND; t.entries.push_back({U("k"), MValue::numb(U("1"))}); add_scalar(blk, "_l_probe", t); }); return true;
        case DF_MISSING_KEY: if (!v2) return false;
            probe(r.chance(1, 2) ? U("_k_probe {'a':1 zz 'b':2}") : U("_k_probe {'a':1 'zz' 'b':2}"), CIF_MISSING_KEY, [&](DBlock &blk) { MValue t; t.kind = CIF_TABLE_KIND; t.entries.push_back({U("a"), MValue::numb(U("1"))}); t.entries.push_back({U("b"), MValue::numb(U("2"))}); add_scalar(blk, "_k_probe", t); }); return true;
        case DF_NULL_KEY: if (!v2) return false;
            probe(U("_k_probe {:5 'b':2}"), CIF_NULL_KEY, [&](DBlock &blk) { MValue t; t.kind = CIF_TABLE_KIND; t.entries.push_back({U("b"), MValue::numb(U("2"))}); add_scalar(blk, "_k_probe", t); }); return true;
        case DF_UNQUOTED_KEY: if (!v2) return false;
            probe(U("_k_probe {ab:5 'b':2}"), CIF_UNQUOTED_KEY, [&](DBlock &blk) { MValue t; t.kind = CIF_TABLE_KIND; t.entries.push_back({U("ab"), MValue::numb(U("5"))}); t.entries.push_back({U("b"), MValue::numb(U("2"))}); add_scalar(blk, "_k_probe", t); }); return true;
        case DF_TEXT_KEY: if (!v2) return false;
            probe(U("_k_probe {\n;k\n;:5 'b':2}"), CIF_MISQUOTED_KEY, [&](DBlock &blk) { MValue t; t.kind = CIF_TABLE_KIND; t.entries.push_back({U("k"), MValue::numb(U("5"))}); t.entries.push_back({U("b"), MValue::numb(U("2"))}); add_scalar(blk, "_k_probe", t); }); return true;
        case DF_RESERVED_WORD: { static const char *const W[] = { "stop_", "global_", "data_", "STOP_", "Global_" }; probe(U(W[r.below(5)]), CIF_RESERVED_WORD, [](DBlock &) {}); return true; }
        case DF_UNEXPECTED_TERM: probe(U("save_"), CIF_UNEXPECTED_TERM, [](DBlock &) {}); return true;
        case DF_NO_FRAME_TERM: {
            // drop the terminator of a frame that is the last item of its block
            const ItemSite *f = pick([&](const ItemSite &x) { return x.item->kind == D_FRAME && !x.in_frame && x.index + 1 == x.siblings->size(); }); if (!f) return false;
            size_t term = (size_t) -1; for (size_t i = 0; i < T.size(); ++i) if (T[i].kind == T_FRAME_END && T[i].item == f->ord) term = i;
            if (term == (size_t) -1) return false;
            size_t nxt = next_token_start(T, term, p.text.size()); size_t a = T[term].start, e = T[term].end;
            bool at_eof = nxt >= p.text.size();
            p.text.erase(a, e - a); p.code = at_eof ? CIF_EOF_IN_FRAME : CIF_NO_FRAME_TERM; p.defect_off = a; p.next_off = at_eof ? p.text.size() : nxt - (e - a) + 1; p.where = at_eof ? "eof" : "before_block"; return true;
        }
        case DF_FRAME_NOT_ALLOWED: {
            int nf = 0; for (auto &s : sites) if (s.item->kind == D_FRAME) ++nf; if (nf != 1) return false;
            const ItemSite *f = pick([&](const ItemSite &x) { return x.item->kind == D_FRAME; });
            std::vector<size_t> idx; for (size_t i = 0; i < T.size(); ++i) if (T[i].kind == T_FRAME && T[i].item == f->ord) idx.push_back(i);
            if (idx.empty()) return false;
            p.opts.max_frame_depth = 0; p.code = CIF_FRAME_NOT_ALLOWED; p.defect_off = T[idx[0]].start; p.next_off = T[idx[0]].end; p.where = "option"; return true;
        }
        case DF_OVERLENGTH: case DF_LENGTH_OK_CONTROL: {
            // stretch a blank inside an insignificant whitespace run so that its line has exactly 2049 (resp. 2048) characters
            std::vector<size_t> spots; for (auto &t : T) if (t.kind == T_WS) for (size_t i = t.start; i < t.end; ++i) if (p.text[i] == ' ' && !(i > t.start && false)) { bool in_comment = false; for (size_t q = t.start; q < i; ++q) { if (p.text[q] == '#') in_comment = true; if (p.text[q] == '\n') in_comment = false; } if (!in_comment) spots.push_back(i); }
            if (spots.empty()) return false;
            size_t at = spots[r.below(spots.size())];
            size_t ls = at; while (ls > 0 && p.text[ls - 1] != '\n') --ls; size_t le = at; while (le < p.text.size() && p.text[le] != '\n') ++le;
            size_t len = 0; for (size_t i = ls; i < le; ++i) if (!(p.text[i] >= 0xdc00 && p.text[i] <= 0xdfff)) ++len;
            size_t target = cls == DF_OVERLENGTH ? 2049 : 2048; if (len >= target) return false;
            insert_at(at, ustr(target - len, u' '));
            p.code = cls == DF_OVERLENGTH ? CIF_OVERLENGTH_LINE : 0; p.defect_off = ls; p.next_off = le + (target - len); p.where = "ws"; return true;
        }
        case DF_DISALLOWED_CHAR_COMMENT: {
            ustr bad; bad += (char16_t) (v2 ? (r.chance(1, 2) ? 0x01 : (r.chance(1, 2) ? 0x7f : 0xfdd0)) : (r.chance(1, 2) ? 0x01 : 0x7f));
            probe(U("# comment ") + bad + U(" end\n"), CIF_DISALLOWED_CHAR, [](DBlock &) {}); return true;
        }
        case DF_DISALLOWED_CHAR_VALUE: {
            ustr bad; bad += (char16_t) (v2 ? (r.chance(1, 2) ? 0x01 : (r.chance(1, 2) ? 0x7f : 0xfffe)) : (r.chance(1, 2) ? 0x01 : 0x7f));
            ustr val = U("a") + bad + U("b");
            probe(U("_d_probe '") + val + U("'"), CIF_DISALLOWED_CHAR, [&](DBlock &blk) { add_scalar(blk, "_d_probe", MValue::chr(val, true)); });
            ustr a1 = U("a"); a1 += (char16_t) 0xfffd; a1 += U("b"); p.alt_texts.push_back(a1); p.alt_texts.push_back(U("a*b")); return true;
        }
    }
    return false;
}

RunResult run_c12(const RunSpec &spec) {
    const char *prop = "C12";
    RunResult res;
    Rng r(hmix(run_seed_of(spec), hstr("c12")));
    // host document (same generator as C01)
    DocCfg cfg; Rng dr(hmix(run_seed_of(spec), hstr("doc")));
    cfg.version = dr.chance(4, 5) ? 2 : 1;
    cfg.max_blocks = (int) dr.range(1, 3); cfg.max_items = (int) dr.range(1, 6); cfg.max_loop_names = (int) dr.range(1, 4); cfg.max_packets = (int) dr.range(1, 4);
    cfg.frames = dr.chance(2, 3); cfg.magic11 = dr.chance(1, 2); cfg.vals.max_depth = (int) dr.range(0, 2); cfg.vals.max_members = 3; cfg.vals.allow_long = false; cfg.vals.allow_composite = cfg.version >= 2;
    Doc host = gen_doc(dr, cfg);
    g_plan_n_ops = 0; g_plan_fault_ops.clear(); plan_ready();
    Rng lr(hmix(run_seed_of(spec), hstr("layout")));
    Layout lay = layout_doc(host, lr, cfg);
    Plant p; int cls = -1;
    for (int attempt = 0; attempt < 12 && cls < 0; ++attempt) {
        int c = (int) r.below(DF_COUNT);
        Plant q; q.doc = host; q.text = lay.text; q.toks = lay.toks; q.opts.policy = 1; q.opts.target = 1;
        if (plant(q, c, r)) { p = q; cls = c; }
    }
    if (cls < 0) { ev("C12: no defect class applicable to this host"); return res; }
    Knobs k = gen_knobs(r, true); if (spec.mods.default_knobs) k = Knobs();
    k.apply();
    ev("C12 v%d class %s where=%s expect %s; %zu units", cfg.version, DFN[cls], p.where.c_str(), p.code ? rc_name(p.code) : "no error", p.text.size());
    if (g_log.keep_text) g_log.add("text: " + snippet(p.text, 200000));
    StreamCfg sc; sc.chunk = r.chance(1, 2) ? (size_t) r.range(1, 200) : 0;
    ParseOutcome out = run_parse(to_utf8(p.text), p.opts, sc, NULL);
    Knobs::reset();
    ev("cif_parse -> %s errors: %s", rc_name(out.rc), errs_str(out.errs).c_str());
    g_stats.cover(hmix(hmix(hstr("c12"), (uint64_t) cls), hmix(hstr(p.where.c_str()), (uint64_t) cfg.version)));
    g_stats.inc(std::string("defect.") + DFN[cls]);
    std::unique_ptr<Violation> bad;
    try {
        if (p.code == 0) {
            if (!out.errs.empty()) DVIOLATE("first_code", strprintf("%s:%s", DFN[cls], rc_name(out.errs[0].code)), "a line of exactly 2048 characters triggered %s; text: %s", errs_str(out.errs).c_str(), snippet(p.text).c_str());
        } else {
            if (out.errs.empty()) DVIOLATE("first_code", strprintf("%s:none", DFN[cls]), "defect of class %s was not reported at all (expected %s); text: %s", DFN[cls], rc_name(p.code), snippet(p.text).c_str());
            if (out.errs[0].code != p.code) DVIOLATE("first_code", strprintf("%s:%s", DFN[cls], rc_name(out.errs[0].code)), "defect of class %s was first reported as %s (documented: %s); text: %s", DFN[cls], rc_name(out.errs[0].code), rc_name(p.code), snippet(p.text).c_str());
            size_t lo = line_of(p.text, p.defect_off), hi = line_of(p.text, p.next_off);
            if (out.errs[0].line < lo || out.errs[0].line > hi) DVIOLATE("line", DFN[cls], "defect of class %s at line %zu (next token at line %zu) was reported at line %zu; text: %s", DFN[cls], lo, hi, out.errs[0].line, snippet(p.text).c_str());
            // further errors after the first are not pinned by the property (e.g. CIF_MISSING_SPACE after a null key, a disallowed
            // CIF 1.1 character reported under two headings): counted, not flagged
            if (out.errs.size() > 1) g_stats.inc("c12.further_errors_after_recovery");
        }
        if (out.rc != CIF_OK) DVIOLATE("recovered", strprintf("%s:rc:%s", DFN[cls], rc_name(out.rc)), "the error callback accepted every error but cif_parse returned %s", rc_name(out.rc));
        if (!out.cif) DVIOLATE("recovered", "no_cif", "no CIF was produced");
        MCif got = dump_cif(out.cif, prop), want = expected_model(p.doc);
        DumpOpts dop; dop.drop_empty_loops = p.accept_empty_loop_absent;
        std::string a = canon(want, dop), bb = canon(got, dop);
        if (a != bb && !p.alt_texts.empty()) {
            for (auto &alt : p.alt_texts) { Doc d2 = p.doc; for (auto &blk : d2.blocks) for (auto &it : blk.items) if (it.kind == D_SCALAR && it.name == U("_d_probe")) it.value.text = alt; if (canon(expected_model(d2), dop) == bb) { a = bb; break; } }
        }
        if (a != bb) DVIOLATE("recovered", DFN[cls], "content after recovery from %s differs from the documented recovery: %s; text: %s", DFN[cls], first_diff(a, bb).c_str(), snippet(p.text).c_str());
    } catch (Violation &v) { bad.reset(new Violation(v)); }
    if (out.cif) { int rc = cif_destroy(out.cif); (void) rc; }
    if (bad) throw *bad;
    return res;
}
