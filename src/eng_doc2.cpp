// eng_doc2.cpp -- doc engine, part 2:
//   C12: one planted defect of a documented class -> documented first code, line window, documented recovery
//   C15: parse-time handler programs in storing and syntax-only mode against a reference event generator
//   C11: CIF version / encoding decision table
#include "doceng.hpp"
#include <unicode/ucnv.h>

#define DVIOLATE(clause, sig, ...) throw Violation(std::string(prop) + "." + (clause), (sig), strprintf(__VA_ARGS__), -1)

static size_t line_of(const ustr &t, size_t off) { size_t l = 1; for (size_t i = 0; i < off && i < t.size(); ++i) if (t[i] == '\n') ++l; return l; }
static std::string snippet(const ustr &t, size_t max = 500) { return u8(t.size() > max ? t.substr(0, max) : t); }

// ------------------------------------------------------------------------------------------------ C12
enum DefectClass { DF_MISSING_VALUE, DF_DUP_SCALAR, DF_DUP_LOOP_NAME, DF_DUP_BLOCK, DF_DUP_FRAME, DF_NO_BLOCK_HEADER, DF_PARTIAL_PACKET, DF_NULL_LOOP, DF_EMPTY_LOOP,
    DF_MISSING_ENDQUOTE, DF_UNCLOSED_TEXT, DF_UNCLOSED_TRIPLE, DF_MISSING_SPACE_LIST, DF_MISSING_SPACE_NAME, DF_STRAY_DELIM, DF_MISSING_DELIM_LIST, DF_MISSING_DELIM_TABLE,
    DF_MISSING_KEY, DF_NULL_KEY, DF_UNQUOTED_KEY, DF_TEXT_KEY, DF_RESERVED_WORD, DF_NO_FRAME_TERM, DF_UNEXPECTED_TERM, DF_FRAME_NOT_ALLOWED, DF_OVERLENGTH, DF_LENGTH_OK_CONTROL,
    DF_DISALLOWED_CHAR_COMMENT, DF_DISALLOWED_CHAR_VALUE, DF_DUP_IN_HEADER, DF_COUNT };
static const char *const DFN[] = { "missing_value", "dup_scalar", "dup_loop_name", "dup_block", "dup_frame", "no_block_header", "partial_packet", "null_loop", "empty_loop",
    "missing_endquote", "unclosed_text", "unclosed_triple", "missing_space_list", "missing_space_name", "stray_delim", "missing_delim_list", "missing_delim_table",
    "missing_key", "null_key", "unquoted_key", "text_key", "reserved_word", "no_frame_term", "unexpected_term", "frame_not_allowed", "overlength", "length_ok_control",
    "disallowed_char_comment", "disallowed_char_value", "dup_in_header" };

struct ItemSite { int ord; DItem *item; std::vector<DItem> *siblings; size_t index; int block; bool in_frame; };
struct Plant {
    Doc doc; ustr text; std::vector<Tok> toks;            // doc is mutated into the *expected* document
    int code = 0; size_t defect_off = 0, next_off = 0;     // line window: line_of(defect_off) <= reported <= line_of(next_off)
    bool no_more = true; bool accept_empty_loop_absent = false; ParseOpts opts; int extra_errors_allowed = 0;
    std::vector<ustr> alt_texts;                           // for disallowed-character: the value may come back with a replacement
    std::string where;
};
static void collect_sites(Doc &d, std::vector<ItemSite> &out) {
    int ord = 0;
    std::function<void(std::vector<DItem> &, int, bool)> rec = [&](std::vector<DItem> &v, int blk, bool inf) { for (size_t i = 0; i < v.size(); ++i) { out.push_back({ord++, &v[i], &v, i, blk, inf}); if (v[i].kind == D_FRAME) rec(v[i].items, blk, true); } };
    for (size_t b = 0; b < d.blocks.size(); ++b) { ++ord; rec(d.blocks[b].items, (int) b, false); }
}
// token helpers on the ORIGINAL layout
static std::vector<size_t> toks_of(const std::vector<Tok> &toks, int ord) { std::vector<size_t> v; for (size_t i = 0; i < toks.size(); ++i) if (toks[i].item == ord && toks[i].kind != T_WS) v.push_back(i); return v; }
// groups of tokens forming one top-level value each
static std::vector<std::pair<size_t, size_t>> value_groups(const std::vector<Tok> &toks, const std::vector<size_t> &idx) {
    std::vector<std::pair<size_t, size_t>> g; int depth = 0; size_t start = 0;
    for (size_t k = 0; k < idx.size(); ++k) {
        const Tok &t = toks[idx[k]];
        if (depth == 0 && (t.kind == T_VALUE)) g.push_back({idx[k], idx[k]});
        else if (t.kind == T_LIST_OPEN || t.kind == T_TABLE_OPEN) { if (depth == 0) start = idx[k]; ++depth; }
        else if (t.kind == T_LIST_CLOSE || t.kind == T_TABLE_CLOSE) { --depth; if (depth == 0) g.push_back({start, idx[k]}); }
    }
    return g;
}
static size_t next_token_start(const std::vector<Tok> &toks, size_t after_tok, size_t text_size) { for (size_t i = after_tok + 1; i < toks.size(); ++i) if (toks[i].kind != T_WS) return toks[i].start; return text_size; }
// end offset of the last non-whitespace token of block b / of frame item (before its terminator)
static size_t block_end_off(const std::vector<Tok> &toks, int b) {
    int seen = -1; size_t end = 0;
    for (size_t i = 0; i < toks.size(); ++i) { if (toks[i].kind == T_BLOCK) ++seen; if (seen == b && toks[i].kind != T_WS) end = toks[i].end; if (seen > b) break; }
    return end;
}

static bool plant(Plant &p, int cls, Rng &r) {
    std::vector<ItemSite> sites; collect_sites(p.doc, sites);
    const std::vector<Tok> &T = p.toks;
    auto insert_at = [&](size_t off, const ustr &s) { p.text.insert(off, s); };
    auto pick = [&](std::function<bool(const ItemSite &)> f) -> const ItemSite * { std::vector<const ItemSite *> c; for (auto &s : sites) if (f(s)) c.push_back(&s); return c.empty() ? NULL : c[r.below(c.size())]; };
    bool v2 = p.doc.version >= 2;
    if (p.doc.blocks.empty()) return false;
    int b = (int) r.below(p.doc.blocks.size());
    size_t bend = block_end_off(T, b);
    // most probe-based classes append " <probe>" at the end of block b
    auto probe = [&](const ustr &txt, int code, std::function<void(DBlock &)> expect, bool frame_ok = true) {
        ustr ins = (r.chance(1, 2) ? U("\n") : U(" ")) + txt;
        // a third of the time (when block b has a top-level save frame) the defective construct goes at the end of that frame's content
        const ItemSite *fs = (frame_ok && r.chance(1, 3)) ? pick([&](const ItemSite &x) { return x.item->kind == D_FRAME && !x.in_frame && x.block == b; }) : NULL;
        if (fs) {
            size_t term = (size_t) -1; for (size_t i = 0; i < T.size(); ++i) if (T[i].kind == T_FRAME_END && T[i].item == fs->ord) term = i;
            if (term != (size_t) -1) {
                size_t at = T[term].start; while (!ins.empty() && ins.back() == '\n') ins.pop_back();
                ustr ins2 = ins + (txt.find(u'\n') != ustr::npos || r.chance(1, 2) ? U("\n") : U(" "));
                insert_at(at, ins2); p.code = code; p.defect_off = at + 1; p.next_off = at + ins2.size();
                DBlock tmp; tmp.items = fs->item->items; expect(tmp); fs->item->items = tmp.items; p.where = "frame_end"; g_stats.inc("c12.defect_in_frame");
                return;
            }
        }
        // sometimes the defective construct is the very last thing in the input (nothing, not even a line terminator, follows)
        if (b + 1 == (int) p.doc.blocks.size() && r.chance(1, 4)) { p.text.erase(bend); while (!ins.empty() && ins.back() == '\n') ins.pop_back(); g_stats.inc("c12.defect_at_eof"); }
        insert_at(bend, ins); p.code = code; p.defect_off = bend + 1; p.next_off = next_token_start(T, 0, 0);   // fixed below
        // next token after the probe: the first non-ws token of the original text at or after bend
        size_t nxt = p.text.size(); for (auto &t : T) if (t.kind != T_WS && t.start >= bend) { nxt = t.start + ins.size(); break; }
        p.next_off = nxt; expect(p.doc.blocks[(size_t) b]); p.where = "block_end";
    };
    auto add_scalar = [&](DBlock &blk, const char *name, const MValue &v) { DItem it; it.kind = D_SCALAR; it.name = U(name); it.value = v; blk.items.push_back(it); };
    switch (cls) {
        case DF_MISSING_VALUE: {
            const ItemSite *s = pick([&](const ItemSite &x) { return x.item->kind == D_SCALAR; }); if (!s) return false;
            std::vector<size_t> idx = toks_of(T, s->ord); auto g = value_groups(T, idx); if (g.size() != 1) return false;
            size_t a = T[g[0].first].start, e = T[g[0].second].end;
            // a text-field value carries its own leading newline: keep one
            p.text.erase(a, e - a); p.code = CIF_MISSING_VALUE; p.defect_off = T[idx[0]].start; size_t nxt = next_token_start(T, g[0].second, p.text.size() + (e - a)); p.next_off = nxt - (e - a);
            s->item->value = MValue::unk(); p.where = s->in_frame ? "in_frame" : "in_block"; return true;
        }
        case DF_DUP_SCALAR: {
            const ItemSite *s = pick([&](const ItemSite &x) { return x.item->kind == D_SCALAR; }); if (!s) return false;
            std::vector<size_t> idx = toks_of(T, s->ord); if (idx.empty()) return false;
            size_t at = T[idx.back()].end;
            // another spelling of the same name
            ustr alt = s->item->name; for (auto &c : item_pool()) if (mnorm(c.variants[0]) == mnorm(alt)) alt = c.variants[r.below(c.variants.size())];
            if (!v2) for (char16_t ch : alt) if (ch > 0x7e) alt = s->item->name;
            ustr ins = U(" ") + alt + U(" 'second occurrence'");
            insert_at(at, ins); p.code = CIF_DUP_ITEMNAME; p.defect_off = at + 1; p.next_off = at + 1 + alt.size() + 1; p.where = s->in_frame ? "in_frame" : "in_block"; return true;
        }
        case DF_DUP_LOOP_NAME: {
            // a loop that follows (in the same container) a scalar: the scalar's name is added as a last header name, with one more value per packet
            const ItemSite *l = pick([&](const ItemSite &x) { if (x.item->kind != D_LOOP) return false; for (size_t i = 0; i < x.index; ++i) if ((*x.siblings)[i].kind == D_SCALAR) return true; return false; }); if (!l) return false;
            ustr nm; for (size_t i = 0; i < l->index; ++i) if ((*l->siblings)[i].kind == D_SCALAR) nm = (*l->siblings)[i].name;
            std::vector<size_t> idx = toks_of(T, l->ord); auto g = value_groups(T, idx); size_t m = l->item->names.size(); if (g.size() != m * l->item->packets.size()) return false;
            // insert from the back so that offsets stay valid
            for (size_t k = g.size(); k-- > 0;) if (k % m == m - 1) insert_at(T[g[k].second].end, U(" dropped"));
            size_t last_name = 0; for (size_t k : idx) if (T[k].kind == T_NAME) last_name = k;
            insert_at(T[last_name].end, U(" ") + nm);
            p.code = CIF_DUP_ITEMNAME; p.defect_off = T[last_name].end + 1; p.next_off = T[last_name].end + 1 + nm.size() + 1; p.where = "loop_header"; return true;
        }
        case DF_DUP_IN_HEADER: {
            // the same name twice within one loop header: the whole loop is dropped
            const ItemSite *l = pick([&](const ItemSite &x) { return x.item->kind == D_LOOP; }); if (!l) return false;
            std::vector<size_t> idx = toks_of(T, l->ord); auto g = value_groups(T, idx); size_t m = l->item->names.size(); if (g.size() != m * l->item->packets.size()) return false;
            for (size_t k = g.size(); k-- > 0;) if (k % m == m - 1) insert_at(T[g[k].second].end, U(" again"));
            size_t last_name = 0; for (size_t k : idx) if (T[k].kind == T_NAME) last_name = k;
            ustr nm = l->item->names[r.below(m)];
            insert_at(T[last_name].end, U(" ") + nm);
            p.code = CIF_DUP_ITEMNAME; p.defect_off = T[idx[0]].start; size_t endoff = T[idx.back()].end; p.next_off = p.text.size(); (void) endoff;
            l->siblings->erase(l->siblings->begin() + (long) l->index); p.where = "loop_header_self"; return true;
        }
        case DF_DUP_BLOCK: {
            ustr code = p.doc.blocks[(size_t) b].code; for (auto &c : code_pool()) if (mnorm(c.variants[0]) == mnorm(code)) code = c.variants[r.below(c.variants.size())];
            if (!v2) code = p.doc.blocks[(size_t) b].code;
            size_t at = p.text.size(); while (at > 0 && (p.text[at - 1] == ' ' || p.text[at - 1] == '\t')) --at;
            ustr ins = U("\ndata_") + code + U(" _dup_probe 5\n");
            p.text += ins; p.code = CIF_DUP_BLOCKCODE; p.defect_off = p.text.size() - ins.size() + 1; p.next_off = p.defect_off + 5 + code.size() + 1;
            add_scalar(p.doc.blocks[(size_t) b], "_dup_probe", MValue::numb(U("5"))); p.where = "doc_end"; return true;
        }
        case DF_DUP_FRAME: {
            const ItemSite *f = pick([&](const ItemSite &x) { return x.item->kind == D_FRAME && !x.in_frame; }); if (!f) return false;
            ustr code = f->item->code; for (auto &c : code_pool()) if (mnorm(c.variants[0]) == mnorm(code)) code = c.variants[r.below(c.variants.size())];
            if (!v2) code = f->item->code;
            size_t be = block_end_off(T, f->block);
            ustr ins = U(" save_") + code + U(" _dup_probe 5 save_");
            insert_at(be, ins); p.code = CIF_DUP_FRAMECODE; p.defect_off = be + 1; p.next_off = be + 1 + 5 + code.size() + 1;
            DItem it; it.kind = D_SCALAR; it.name = U("_dup_probe"); it.value = MValue::numb(U("5")); f->item->items.push_back(it); p.where = "block_end"; return true;
        }
        case DF_NO_BLOCK_HEADER: {
            size_t at = 0; for (auto &t : T) if (t.kind == T_MAGIC) { at = t.end; while (at < p.text.size() && p.text[at] != '\n') ++at; if (at < p.text.size()) ++at; }   // after the magic line's newline
            ustr ins = U(" _orphan 7 ");
            insert_at(at, ins); p.code = CIF_NO_BLOCK_HEADER; p.defect_off = at + 1; p.next_off = at + 9;
            DBlock nb; nb.code = ustr(); add_scalar(nb, "_orphan", MValue::numb(U("7"))); p.doc.blocks.insert(p.doc.blocks.begin(), nb); p.where = "doc_start"; return true;
        }
        case DF_PARTIAL_PACKET: {
            const ItemSite *l = pick([&](const ItemSite &x) { return x.item->kind == D_LOOP && x.item->names.size() >= 2; }); if (!l) return false;
            std::vector<size_t> idx = toks_of(T, l->ord); auto g = value_groups(T, idx); size_t m = l->item->names.size(); if (g.size() != m * l->item->packets.size()) return false;
            size_t k = (size_t) r.range(1, (long) m - 1);
            size_t a = T[g[g.size() - k].first].start, e = T[g.back().second].end;
            size_t nxt = next_token_start(T, g.back().second, p.text.size());
            p.text.erase(a, e - a); p.code = CIF_PARTIAL_PACKET; p.defect_off = T[g[g.size() - k - 1].first].start; p.next_off = nxt - (e - a);
            for (size_t q = m - k; q < m; ++q) l->item->packets.back()[q] = MValue::unk();
            p.where = l->in_frame ? "in_frame" : "in_block"; return true;
        }
        case DF_NULL_LOOP: probe(U("loop_"), CIF_NULL_LOOP, [](DBlock &) {}); return true;
        case DF_EMPTY_LOOP: probe(U("loop_ _empty_probe1 _empty_probe2"), CIF_EMPTY_LOOP, [](DBlock &) {}); p.accept_empty_loop_absent = true; return true;
        case DF_MISSING_ENDQUOTE: {
            ustr q = r.chance(1, 2) ? U("'") : U("\"");
            if (r.chance(1, 3)) {
                // the unterminated string is the very last thing in the input: no line terminator follows it
                b = (int) p.doc.blocks.size() - 1; size_t be = block_end_off(T, b);
                p.text.erase(be); ustr ins = U("\n_q_probe ") + q + U("abc def");
                p.text += ins; p.code = CIF_MISSING_ENDQUOTE; p.defect_off = be + 1; p.next_off = p.text.size();
                add_scalar(p.doc.blocks[(size_t) b], "_q_probe", MValue::chr(U("abc def"), true)); p.where = "doc_end_no_eol"; return true;
            }
            probe(U("_q_probe ") + q + U("abc def\n"), CIF_MISSING_ENDQUOTE, [&](DBlock &blk) { add_scalar(blk, "_q_probe", MValue::chr(U("abc def"), true)); }); return true;
        }
        case DF_UNCLOSED_TEXT: case DF_UNCLOSED_TRIPLE: {
            if (cls == DF_UNCLOSED_TRIPLE && !v2) return false;
            b = (int) p.doc.blocks.size() - 1;
            size_t at = p.text.size();
            // must be the last thing in the input; the leading newline also ends a trailing comment, if any
            ustr ins = cls == DF_UNCLOSED_TEXT ? U("\n_t_probe\n;text line\nmore") : U("\n_t_probe '''abc\ndef");
            p.text += ins; p.code = CIF_UNCLOSED_TEXT; p.defect_off = at + 1; p.next_off = p.text.size();
            // only valid if the probe lands in the last block's top level (not inside an unterminated frame): it does, the host is well formed
            add_scalar(p.doc.blocks[(size_t) b], "_t_probe", MValue::chr(cls == DF_UNCLOSED_TEXT ? U("text line\nmore") : U("abc\ndef"), true)); p.where = "doc_end"; return true;
        }
        case DF_MISSING_SPACE_LIST: {
            if (!v2) return false;
            // the token the whitespace is missing after: a quoted string, or the closing delimiter of a nested list / table
            auto two = [](MValue a, MValue b) { MValue l; l.kind = CIF_LIST_KIND; l.elems.push_back(a); l.elems.push_back(b); return l; };
            auto l12 = [&]() { return two(MValue::numb(U("1")), MValue::numb(U("2"))); };
            auto tab = [](const char *k, const char *v) { MValue t; t.kind = CIF_TABLE_KIND; t.entries.push_back({U(k), MValue::numb(U(v))}); return t; };
            switch (r.below(5)) {
                case 0: probe(U("_m_probe [[1 2][1 2]]"), CIF_MISSING_SPACE, [&](DBlock &blk) { add_scalar(blk, "_m_probe", two(l12(), l12())); }); break;
                case 1: probe(U("_m_probe [{'a':1}{'b':2}]"), CIF_MISSING_SPACE, [&](DBlock &blk) { add_scalar(blk, "_m_probe", two(tab("a", "1"), tab("b", "2"))); }); break;
                case 2: probe(U("_m_probe [[1 2]'y']"), CIF_MISSING_SPACE, [&](DBlock &blk) { add_scalar(blk, "_m_probe", two(l12(), MValue::chr(U("y"), true))); }); break;
                default: probe(U("_m_probe ['x''y']"), CIF_MISSING_SPACE, [&](DBlock &blk) { add_scalar(blk, "_m_probe", two(MValue::chr(U("x"), true), MValue::chr(U("y"), true))); }); break;
            }
            return true;
        }
        case DF_MISSING_SPACE_NAME: {
            if (!v2) return false;
            auto l12 = [&]() { MValue l; l.kind = CIF_LIST_KIND; l.elems.push_back(MValue::numb(U("1"))); l.elems.push_back(MValue::numb(U("2"))); return l; };
            switch (r.below(4)) {
                case 0: probe(U("_m_probe [1 2]_m_probe2 2"), CIF_MISSING_SPACE, [&](DBlock &blk) { add_scalar(blk, "_m_probe", l12()); add_scalar(blk, "_m_probe2", MValue::numb(U("2"))); }); break;
                case 1: probe(U("_m_probe {'k':1}_m_probe2 2"), CIF_MISSING_SPACE, [&](DBlock &blk) { MValue t; t.kind = CIF_TABLE_KIND; t.entries.push_back({U("k"), MValue::numb(U("1"))}); add_scalar(blk, "_m_probe", t); add_scalar(blk, "_m_probe2", MValue::numb(U("2"))); }); break;
                default: probe(U("_m_probe 'x'_m_probe2 2"), CIF_MISSING_SPACE, [&](DBlock &blk) { add_scalar(blk, "_m_probe", MValue::chr(U("x"), true)); add_scalar(blk, "_m_probe2", MValue::numb(U("2"))); }); break;
            }
            return true;
        }
        case DF_STRAY_DELIM: {
            if (!v2) return false;
            ustr d = r.chance(1, 2) ? U("]") : U("}");
            // half of the time inside a loop body (on a packet boundary or in the middle of a packet): the delimiter is dropped, the
            // loop body is not terminated and nothing else changes
            const ItemSite *l = r.chance(1, 2) ? pick([&](const ItemSite &x) { return x.item->kind == D_LOOP && !x.item->packets.empty(); }) : NULL;
            if (l) {
                std::vector<size_t> idx = toks_of(T, l->ord); auto g = value_groups(T, idx); size_t m = l->item->names.size();
                if (g.size() == m * l->item->packets.size() && g.size() >= 2) {
                    size_t k = (size_t) r.range(1, (long) g.size() - 1); size_t at = T[g[k].first].start;
                    // a text field begins with its line terminator: the insertion goes in front of it, separated by blanks
                    insert_at(at, d + U(" ")); p.code = CIF_UNEXPECTED_DELIM; p.defect_off = at; p.next_off = at + 2; p.where = (k % m == 0) ? "loop_packet_boundary" : "loop_mid_packet"; return true;
                }
            }
            probe(d, CIF_UNEXPECTED_DELIM, [](DBlock &) {}); return true;
        }
        case DF_MISSING_DELIM_LIST: if (!v2) return false;
            probe(U("_l_probe [1 2"), CIF_MISSING_DELIM, [&](DBlock &blk) { MValue l; l.kind = CIF_LIST_KIND; l.elems.push_back(MValue::numb(U("1"))); l.elems.push_back(MValue::numb(U("2"))); add_scalar(blk, "_l_probe", l); }); return true;
        case DF_MISSING_DELIM_TABLE: if (!v2) return false;
            probe(U("_l_probe {'k':1"), CIF_MISSING_DELIM, [&](DBlock &blk) { MValue t; t.kind = CIF_TABLE_KIND; t.entries.push_back({U("k"), MValue::numb(U("1"))}); add_scalar(blk, "_l_probe", t); }); return true;
        case DF_MISSING_KEY: if (!v2) return false;
            probe(r.chance(1, 2) ? U("_k_probe {'a':1 zz 'b':2}") : U("_k_probe {'a':1 'zz' 'b':2}"), CIF_MISSING_KEY, [&](DBlock &blk) { MValue t; t.kind = CIF_TABLE_KIND; t.entries.push_back({U("a"), MValue::numb(U("1"))}); t.entries.push_back({U("b"), MValue::numb(U("2"))}); add_scalar(blk, "_k_probe", t); }); return true;
        case DF_NULL_KEY: if (!v2) return false;
            probe(U("_k_probe {:5 'b':2}"), CIF_NULL_KEY, [&](DBlock &blk) { MValue t; t.kind = CIF_TABLE_KIND; t.entries.push_back({U("b"), MValue::numb(U("2"))}); add_scalar(blk, "_k_probe", t); }); return true;
        case DF_UNQUOTED_KEY: if (!v2) return false;
            probe(U("_k_probe {ab:5 'b':2}"), CIF_UNQUOTED_KEY, [&](DBlock &blk) { MValue t; t.kind = CIF_TABLE_KIND; t.entries.push_back({U("ab"), MValue::numb(U("5"))}); t.entries.push_back({U("b"), MValue::numb(U("2"))}); add_scalar(blk, "_k_probe", t); }); return true;
        case DF_TEXT_KEY: if (!v2) return false;
            probe(U("_k_probe {\n;k\n;:5 'b':2}"), CIF_MISQUOTED_KEY, [&](DBlock &blk) { MValue t; t.kind = CIF_TABLE_KIND; t.entries.push_back({U("k"), MValue::numb(U("5"))}); t.entries.push_back({U("b"), MValue::numb(U("2"))}); add_scalar(blk, "_k_probe", t); }); return true;
        case DF_RESERVED_WORD: { static const char *const W[] = { "stop_", "global_", "data_", "STOP_", "Global_" }; probe(U(W[r.below(5)]), CIF_RESERVED_WORD, [](DBlock &) {}, false); return true; }
        case DF_UNEXPECTED_TERM: probe(U("save_"), CIF_UNEXPECTED_TERM, [](DBlock &) {}, false); return true;
        case DF_NO_FRAME_TERM: {
            // drop the terminator of a frame that is the last item of its block
            const ItemSite *f = pick([&](const ItemSite &x) { return x.item->kind == D_FRAME && !x.in_frame && x.index + 1 == x.siblings->size(); }); if (!f) return false;
            size_t term = (size_t) -1; for (size_t i = 0; i < T.size(); ++i) if (T[i].kind == T_FRAME_END && T[i].item == f->ord) term = i;
            if (term == (size_t) -1) return false;
            size_t nxt = next_token_start(T, term, p.text.size()); size_t a = T[term].start, e = T[term].end;
            bool at_eof = nxt >= p.text.size();
            p.text.erase(a, e - a); p.code = at_eof ? CIF_EOF_IN_FRAME : CIF_NO_FRAME_TERM; p.defect_off = a; p.next_off = at_eof ? p.text.size() : nxt - (e - a) + 1; p.where = at_eof ? "eof" : "before_block"; return true;
        }
        case DF_FRAME_NOT_ALLOWED: {
            int nf = 0; for (auto &s : sites) if (s.item->kind == D_FRAME) ++nf; if (nf != 1) return false;
            const ItemSite *f = pick([&](const ItemSite &x) { return x.item->kind == D_FRAME; });
            std::vector<size_t> idx; for (size_t i = 0; i < T.size(); ++i) if (T[i].kind == T_FRAME && T[i].item == f->ord) idx.push_back(i);
            if (idx.empty()) return false;
            p.opts.max_frame_depth = 0; p.code = CIF_FRAME_NOT_ALLOWED; p.defect_off = T[idx[0]].start; p.next_off = T[idx[0]].end; p.where = "option"; return true;
        }
        case DF_OVERLENGTH: case DF_LENGTH_OK_CONTROL: {
            // stretch a blank inside an insignificant whitespace run so that its line has exactly 2049 (resp. 2048) characters
            std::vector<size_t> spots; for (auto &t : T) if (t.kind == T_WS) for (size_t i = t.start; i < t.end; ++i) if (p.text[i] == ' ' && !(i > t.start && false)) { bool in_comment = false; for (size_t q = t.start; q < i; ++q) { if (p.text[q] == '#') in_comment = true; if (p.text[q] == '\n') in_comment = false; } if (!in_comment) spots.push_back(i); }
            if (spots.empty()) return false;
            size_t at = spots[r.below(spots.size())];
            size_t ls = at; while (ls > 0 && p.text[ls - 1] != '\n') --ls; size_t le = at; while (le < p.text.size() && p.text[le] != '\n') ++le;
            size_t len = 0; for (size_t i = ls; i < le; ++i) if (!(p.text[i] >= 0xdc00 && p.text[i] <= 0xdfff)) ++len;
            size_t target = cls == DF_OVERLENGTH ? 2049 : 2048; if (len >= target) return false;
            insert_at(at, ustr(target - len, u' '));
            p.code = cls == DF_OVERLENGTH ? CIF_OVERLENGTH_LINE : 0; p.defect_off = ls; p.next_off = le + (target - len); p.where = "ws"; return true;
        }
        case DF_DISALLOWED_CHAR_COMMENT: {
            ustr bad; bad += (char16_t) (v2 ? (r.chance(1, 2) ? 0x01 : (r.chance(1, 2) ? 0x7f : 0xfdd0)) : (r.chance(1, 2) ? 0x01 : 0x7f));
            probe(U("# comment ") + bad + U(" end\n"), CIF_DISALLOWED_CHAR, [](DBlock &) {}); return true;
        }
        case DF_DISALLOWED_CHAR_VALUE: {
            ustr bad; bad += (char16_t) (v2 ? (r.chance(1, 2) ? 0x01 : (r.chance(1, 2) ? 0x7f : 0xfffe)) : (r.chance(1, 2) ? 0x01 : 0x7f));
            ustr val = U("a") + bad + U("b");
            probe(U("_d_probe '") + val + U("'"), CIF_DISALLOWED_CHAR, [&](DBlock &blk) { add_scalar(blk, "_d_probe", MValue::chr(val, true)); });
            ustr a1 = U("a"); a1 += (char16_t) 0xfffd; a1 += U("b"); p.alt_texts.push_back(a1); p.alt_texts.push_back(U("a*b")); return true;
        }
    }
    return false;
}

RunResult run_c12(const RunSpec &spec) {
    const char *prop = "C12";
    RunResult res;
    Rng r(hmix(run_seed_of(spec), hstr("c12")));
    // host document (same generator as C01)
    DocCfg cfg; Rng dr(hmix(run_seed_of(spec), hstr("doc")));
    cfg.version = dr.chance(4, 5) ? 2 : 1;
    cfg.max_blocks = (int) dr.range(1, 3); cfg.max_items = (int) dr.range(1, 6); cfg.max_loop_names = (int) dr.range(1, 4); cfg.max_packets = (int) dr.range(1, 4);
    cfg.frames = dr.chance(2, 3); cfg.magic11 = dr.chance(1, 2); cfg.vals.max_depth = (int) dr.range(0, 2); cfg.vals.max_members = 3; cfg.vals.allow_long = false; cfg.vals.allow_composite = cfg.version >= 2;
    Doc host = gen_doc(dr, cfg);
    g_plan_n_ops = 0; g_plan_fault_ops.clear(); plan_ready();
    Rng lr(hmix(run_seed_of(spec), hstr("layout")));
    Layout lay = layout_doc(host, lr, cfg);
    Plant p; int cls = -1;
    for (int attempt = 0; attempt < 12 && cls < 0; ++attempt) {
        int c = (int) r.below(DF_COUNT);
        Plant q; q.doc = host; q.text = lay.text; q.toks = lay.toks; q.opts.policy = 1; q.opts.target = 1;
        if (plant(q, c, r)) { p = q; cls = c; }
    }
    if (cls < 0) { ev("C12: no defect class applicable to this host"); return res; }
    Knobs k = gen_knobs(r, true); if (spec.mods.default_knobs) k = Knobs();
    k.apply();
    ev("C12 v%d class %s where=%s expect %s; %zu units", cfg.version, DFN[cls], p.where.c_str(), p.code ? rc_name(p.code) : "no error", p.text.size());
    if (g_log.keep_text) g_log.add("text: " + snippet(p.text, 200000));
    StreamCfg sc; sc.chunk = r.chance(1, 2) ? (size_t) r.range(1, 200) : 0;
    ParseOutcome out = run_parse(to_utf8(p.text), p.opts, sc, NULL);
    Knobs::reset();
    ev("cif_parse -> %s errors: %s", rc_name(out.rc), errs_str(out.errs).c_str());
    g_stats.cover(hmix(hmix(hstr("c12"), (uint64_t) cls), hmix(hstr(p.where.c_str()), (uint64_t) cfg.version)));
    g_stats.inc(std::string("defect.") + DFN[cls]);
    std::unique_ptr<Violation> bad;
    try {
        if (p.code == 0) {
            if (!out.errs.empty()) DVIOLATE("first_code", strprintf("%s:%s", DFN[cls], rc_name(out.errs[0].code)), "a line of exactly 2048 characters triggered %s; text: %s", errs_str(out.errs).c_str(), snippet(p.text).c_str());
        } else {
            if (out.errs.empty()) DVIOLATE("first_code", strprintf("%s:none", DFN[cls]), "defect of class %s was not reported at all (expected %s); text: %s", DFN[cls], rc_name(p.code), snippet(p.text).c_str());
            if (out.errs[0].code != p.code) DVIOLATE("first_code", strprintf("%s:%s", DFN[cls], rc_name(out.errs[0].code)), "defect of class %s was first reported as %s (documented: %s); text: %s", DFN[cls], rc_name(out.errs[0].code), rc_name(p.code), snippet(p.text).c_str());
            size_t lo = line_of(p.text, p.defect_off), hi = line_of(p.text, p.next_off);
            if (out.errs[0].line < lo || out.errs[0].line > hi) DVIOLATE("line", DFN[cls], "defect of class %s at line %zu (next token at line %zu) was reported at line %zu; text: %s", DFN[cls], lo, hi, out.errs[0].line, snippet(p.text).c_str());
            // further errors after the first are not pinned by the property (e.g. CIF_MISSING_SPACE after a null key, a disallowed
            // CIF 1.1 character reported under two headings): counted, not flagged
            if (out.errs.size() > 1) g_stats.inc("c12.further_errors_after_recovery");
        }
        if (out.rc != CIF_OK) DVIOLATE("recovered", strprintf("%s:rc:%s", DFN[cls], rc_name(out.rc)), "the error callback accepted every error but cif_parse returned %s", rc_name(out.rc));
        if (!out.cif) DVIOLATE("recovered", "no_cif", "no CIF was produced");
        MCif got = dump_cif(out.cif, prop), want = expected_model(p.doc);
        DumpOpts dop; dop.drop_empty_loops = p.accept_empty_loop_absent;
        std::string a = canon(want, dop), bb = canon(got, dop);
        if (a != bb && !p.alt_texts.empty()) {
            for (auto &alt : p.alt_texts) { Doc d2 = p.doc; std::function<void(std::vector<DItem> &)> sub = [&](std::vector<DItem> &v) { for (auto &it : v) { if (it.kind == D_SCALAR && it.name == U("_d_probe")) it.value.text = alt; if (it.kind == D_FRAME) sub(it.items); } }; for (auto &blk : d2.blocks) sub(blk.items); if (canon(expected_model(d2), dop) == bb) { a = bb; break; } }
        }
        if (a != bb) DVIOLATE("recovered", DFN[cls], "content after recovery from %s differs from the documented recovery: %s; text: %s", DFN[cls], first_diff(a, bb).c_str(), snippet(p.text).c_str());
    } catch (Violation &v) { bad.reset(new Violation(v)); }
    if (out.cif) { int rc = cif_destroy(out.cif); (void) rc; }
    if (bad) throw *bad;
    return res;
}

// ------------------------------------------------------------------------------------------------ C15
enum Flow { F_GO, F_SKIP_CUR, F_SKIP_SIB, F_STOP };
struct Acceptor {
    const char *prop = "C15";
    std::vector<HEvt> obs; size_t pos = 0; const HandlerProgram *hp; long ord[11]; bool syn; bool storing;
    int rc = CIF_OK; bool stopped = false; std::string mode;
    Doc stored;                                   // what should end up in the CIF
    [[noreturn]] void fail(const std::string &sig, const std::string &msg) {
        std::string ctx; for (size_t i = (pos > 4 ? pos - 4 : 0); i < obs.size() && i < pos + 3; ++i) ctx += strprintf("%s[%d:%s] ", i == pos ? "->" : "", obs[i].kind, obs[i].what.substr(0, 40).c_str());
        throw Violation("C15.order", mode + ":" + sig, msg + " (" + mode + " mode; events around: " + ctx + ")", -1);
    }
    bool keep_cut_packets = false, saw_item_cut = false;   // see walk_loop: the two admissible readings of SKIP_SIBLINGS from a looped item
    Flow flow(int r) { if (r == CIF_TRAVERSE_CONTINUE) return F_GO; if (r == CIF_TRAVERSE_SKIP_CURRENT) return F_SKIP_CUR; if (r == CIF_TRAVERSE_SKIP_SIBLINGS) return F_SKIP_SIB; stopped = true; rc = r > 0 ? r : CIF_OK; return F_STOP; }
    // handler event of kind hk (0..10). Returns the flow directive; *called tells whether an optional event occurred.
    Flow H(int hk, int evkind, const std::string &what, bool check_what, bool optional = false, bool *called = NULL) {
        if (called) *called = false;
        if (hp->resp[hk].empty()) return F_GO;                 // no handler for this kind: nothing is delivered
        bool match = pos < obs.size() && obs[pos].kind == evkind;
        if (!match) {
            if (optional) return F_GO;
            fail(strprintf("missing:%d", evkind), strprintf("expected handler callback kind %d (%s) but the next callback is %s", evkind, what.c_str(), pos < obs.size() ? strprintf("kind %d (%s)", obs[pos].kind, obs[pos].what.substr(0, 60).c_str()).c_str() : "none"));
        }
        if (check_what && obs[pos].what != what) fail(strprintf("what:%d", evkind), strprintf("callback kind %d delivered \"%s\", the document denotes \"%s\"", evkind, obs[pos].what.substr(0, 200).c_str(), what.substr(0, 200).c_str()));
        ++pos; if (called) *called = true;
        int r = hp->resp[hk][(size_t) (ord[hk] % (long) hp->resp[hk].size())]; ++ord[hk];
        return flow(r);
    }
    void S(int evkind, const std::string &what) {
        if (!syn) return;
        // (the text handed to the keyword callback is not pinned by the property: only its presence and position are checked)
        if (!(pos < obs.size() && obs[pos].kind == evkind && (evkind == EV_KEYWORD || obs[pos].what == what))) fail(strprintf("syntax:%d", evkind), strprintf("expected syntax callback kind %d \"%s\" next", evkind, what.c_str()));
        ++pos;
    }
    static std::string synw(const ustr &s) { return strprintf("%zu:", s.size()) + u8(s.size() > 64 ? s.substr(0, 64) : s); }
    static MValue ev_value(const MValue &v, int version) { MValue o = v; if (v.kind == CIF_NUMB_KIND) o = MValue::chr(v.text, v.quoted); if (o.kind == CIF_CHAR_KIND && !o.quoted && version < 2) for (char16_t ch : o.text) if (ch == '[' || ch == ']' || ch == '{' || ch == '}') o.quoted = true; for (auto &e : o.elems) e = ev_value(e, version); for (auto &e : o.entries) e.second = ev_value(e.second, version); o.has_num = false; return o; }
    Flow walk_loop(const DItem &l, std::vector<DItem> &out, int version) {
        S(EV_KEYWORD, "5:loop_");          // keyword text is reported as scanned: compare case-insensitively below
        for (auto &n : l.names) S(EV_DATANAME, synw(n));
        std::string names; for (auto &n : l.names) { names += u8(n); names += " "; }
        Flow r = H(6, EV_LOOP_START, names, true);
        if (r == F_STOP) return F_STOP;
        if (r != F_GO) { bool called; Flow e = H(7, EV_LOOP_END, "", false, true, &called); if (called) { if (e == F_STOP) return F_STOP; if (e == F_SKIP_SIB) return F_SKIP_SIB; } return r == F_SKIP_SIB ? F_SKIP_SIB : F_GO; }
        DItem sl = l; sl.packets.clear(); bool bypass = false;
        for (auto &row : l.packets) {
            Flow ps = H(8, EV_PACKET_START, "", false);
            if (ps == F_STOP) { out.push_back(sl); return F_STOP; }
            if (ps != F_GO) { bool called; Flow e = H(9, EV_PACKET_END, "", false, true, &called); if (called) { if (e == F_STOP) { out.push_back(sl); return F_STOP; } if (e == F_SKIP_SIB) bypass = true; } if (ps == F_SKIP_SIB) bypass = true; if (bypass) break; continue; }
            // Item of a loop packet: SKIP_CURRENT has nothing to bypass (an item has no children); SKIP_SIBLINGS bypasses the
            // remaining items of this packet -- no callbacks for them, a packet_end callback may or may not follow, and the
            // packet cannot be stored whole: it is dropped (variant A, what the parser's documentation of 'handler' suggests)
            // or stored with the bypassed items unknown (variant B, the other reading of "everything else is stored").
            bool cut = false;
            for (size_t k = 0; k < row.size(); ++k) { Flow it = H(10, EV_ITEM, u8(l.names[k]) + "=" + canon(ev_value(row[k], version)), true); if (it == F_STOP) { out.push_back(sl); return F_STOP; }
                if (it == F_SKIP_SIB) { cut = true; saw_item_cut = true; g_stats.inc("c15.looped_item_skip_siblings"); if (keep_cut_packets) { std::vector<MValue> part = row; for (size_t q = k; q < part.size(); ++q) part[q] = MValue::unk(); sl.packets.push_back(part); } break; } }
            if (cut) { bool called; Flow e = H(9, EV_PACKET_END, "", false, true, &called); if (called) { if (e == F_STOP) { out.push_back(sl); return F_STOP; } if (e == F_SKIP_SIB) { bypass = true; break; } } continue; }
            Flow pe = H(9, EV_PACKET_END, "", false);
            if (pe == F_STOP) { out.push_back(sl); return F_STOP; }
            if (pe == F_GO) sl.packets.push_back(row);
            if (pe == F_SKIP_SIB) { bypass = true; break; }
        }
        out.push_back(sl);
        bool called; Flow e = H(7, EV_LOOP_END, "", false, bypass, &called);
        if (e == F_STOP) return F_STOP;
        if (e == F_SKIP_SIB && (called || !bypass)) return F_SKIP_SIB;
        return F_GO;
    }
    Flow walk_items(const std::vector<DItem> &items, std::vector<DItem> &out, int version, bool &rest_bypassed) {
        rest_bypassed = false;
        for (auto &it : items) {
            if (it.kind == D_SCALAR) {
                S(EV_DATANAME, synw(it.name));
                Flow r = H(10, EV_ITEM, u8(it.name) + "=" + canon(ev_value(it.value, version)), true);
                if (r == F_STOP) return F_STOP;
                if (r == F_GO) out.push_back(it);
                if (r == F_SKIP_SIB) { rest_bypassed = true; return F_GO; }
            } else if (it.kind == D_LOOP) {
                Flow r = walk_loop(it, out, version);
                if (r == F_STOP) return F_STOP;
                if (r == F_SKIP_SIB) { rest_bypassed = true; return F_GO; }
            } else {
                DItem f; f.kind = D_FRAME; f.code = it.code;
                Flow r = walk_container(it.code, it.items, f.items, false, version);
                out.push_back(f);
                if (r == F_STOP) return F_STOP;
                if (r == F_SKIP_SIB) { rest_bypassed = true; return F_GO; }
            }
        }
        return F_GO;
    }
    Flow walk_container(const ustr &code, const std::vector<DItem> &items, std::vector<DItem> &out, bool is_block, int version) {
        (void) code;
        Flow r = H(is_block ? 2 : 4, is_block ? EV_BLOCK_START : EV_FRAME_START, "", false);
        if (r == F_STOP) return F_STOP;
        bool rest = false;
        if (r == F_GO) { Flow c = walk_items(items, out, version, rest); if (c == F_STOP) return F_STOP; }
        bool called; Flow e = H(is_block ? 3 : 5, is_block ? EV_BLOCK_END : EV_FRAME_END, "", false, r != F_GO || rest, &called);
        if (e == F_STOP) return F_STOP;
        if (r == F_SKIP_SIB) return F_SKIP_SIB;
        if (e == F_SKIP_SIB) return F_SKIP_SIB;
        return F_GO;
    }
    void walk_cif(const Doc &d) {
        stored = Doc(); stored.version = d.version;
        Flow r = H(0, EV_CIF_START, "", false);
        if (r == F_STOP) return;
        bool sib = false;
        if (r == F_GO) for (auto &b : d.blocks) { DBlock sb; sb.code = b.code; Flow c = walk_container(b.code, b.items, sb.items, true, d.version); stored.blocks.push_back(sb); if (c == F_STOP) return; if (c == F_SKIP_SIB) { sib = true; break; } }
        Flow e = H(1, EV_CIF_END, "", false, r != F_GO || sib);
        (void) e;      // cif_end: any navigation response means CIF_OK; a positive one is the return code (handled by flow())
    }
};
static std::vector<int> gen_table(Rng &r, bool allow_skip, bool allow_stop) {
    std::vector<int> t; size_t n = (size_t) r.range(1, 5);
    for (size_t i = 0; i < n; ++i) {
        unsigned w = (unsigned) r.below(100);
        if (w < 70) t.push_back(CIF_TRAVERSE_CONTINUE);
        else if (w < 82) t.push_back(allow_skip ? CIF_TRAVERSE_SKIP_CURRENT : CIF_TRAVERSE_CONTINUE);
        else if (w < 92) t.push_back(allow_skip ? CIF_TRAVERSE_SKIP_SIBLINGS : CIF_TRAVERSE_CONTINUE);
        else if (w < 96) t.push_back(allow_stop ? CIF_TRAVERSE_END : CIF_TRAVERSE_CONTINUE);
        else { static const int C[] = { CIF_CLIENT_ERROR, 1, 140, CIF_ERROR }; t.push_back(allow_stop ? C[r.below(4)] : CIF_TRAVERSE_CONTINUE); }
    }
    return t;
}
static bool doc_has_loops(const Doc &d) { std::function<bool(const std::vector<DItem> &)> rec = [&](const std::vector<DItem> &v) { for (auto &i : v) { if (i.kind == D_LOOP) return true; if (i.kind == D_FRAME && rec(i.items)) return true; } return false; }; for (auto &b : d.blocks) if (rec(b.items)) return true; return false; }
static std::vector<HEvt> strip_ws(const std::vector<HEvt> &e) { std::vector<HEvt> o; for (auto &x : e) if (x.kind != EV_WS) o.push_back(x); return o; }
RunResult run_c15(const RunSpec &spec) {
    const char *prop = "C15";
    RunResult res;
    Rng dr(hmix(run_seed_of(spec), hstr("doc")));
    DocCfg cfg; cfg.version = dr.chance(4, 5) ? 2 : 1;
    cfg.max_blocks = (int) dr.range(1, 3); cfg.max_items = (int) dr.range(1, 6); cfg.max_loop_names = (int) dr.range(1, 3); cfg.max_packets = (int) dr.range(1, 4);
    cfg.frames = dr.chance(2, 3); cfg.magic11 = dr.chance(1, 2); cfg.vals.max_depth = (int) dr.range(0, 2); cfg.vals.max_members = 3; cfg.vals.allow_long = false; cfg.vals.allow_composite = cfg.version >= 2;
    Doc doc = gen_doc(dr, cfg);
    g_plan_n_ops = 0; g_plan_fault_ops.clear(); plan_ready();
    Rng lr(hmix(run_seed_of(spec), hstr("layout")));
    Layout lay = layout_doc(doc, lr, cfg);
    Rng r(hmix(run_seed_of(spec), hstr("callbacks")));
    ParseOpts o; o.policy = 1; o.hp.present = true; o.syntax_callbacks = r.chance(2, 3);
    bool all_continue = r.chance(1, 4); bool loops = doc_has_loops(doc);
    for (int k = 0; k < 11; ++k) {
        if (r.chance(1, 8)) continue;                                  // no handler for this kind
        if (all_continue) { o.hp.resp[k].push_back(CIF_TRAVERSE_CONTINUE); continue; }
        (void) loops;
        o.hp.resp[k] = gen_table(r, true, true);
    }
    o.hp.reenter = r.chance(1, 2);
    std::vector<unsigned char> bytes = lay.utf8();
    Knobs kn = gen_knobs(r, true); if (spec.mods.default_knobs) kn = Knobs();
    ev("C15 v%d %zu bytes all_continue=%d syntax=%d", cfg.version, bytes.size(), all_continue ? 1 : 0, o.syntax_callbacks ? 1 : 0);
    if (g_log.keep_text) { g_log.add("text: " + snippet(lay.text, 100000)); std::string t; for (int k = 0; k < 11; ++k) { t += strprintf(" k%d[", k); for (int x : o.hp.resp[k]) t += strprintf("%d ", x); t += "]"; } g_log.add("program:" + t); }
    StreamCfg sc;
    std::vector<HEvt> seqs[2]; int rcs[2] = {0, 0};
    for (int mode = 0; mode < 2; ++mode) {
        ParseOpts om = o; om.target = mode == 0 ? 1 : 0;
        kn.apply();
        ParseOutcome out = run_parse(bytes, om, sc, NULL);
        Knobs::reset();
        ev("%s parse -> %s, %zu callbacks, %zu errors", mode == 0 ? "storing" : "syntax-only", rc_name(out.rc), out.events.size(), out.errs.size());
        if (g_log.keep_text) { std::string t; for (auto &e : strip_ws(out.events)) t += strprintf("[%d:%s] ", e.kind, e.what.substr(0, 50).c_str()); g_log.add("events: " + t); }
        std::unique_ptr<Violation> bad;
        try {
            if (!out.errs.empty()) DVIOLATE("order", strprintf("error:%s", rc_name(out.errs[0].code)), "a well-formed document triggered the error callback: %s", errs_str(out.errs).c_str());
            Acceptor a; a.obs = strip_ws(out.events); a.hp = &om.hp; memset(a.ord, 0, sizeof a.ord); a.syn = om.syntax_callbacks; a.storing = mode == 0; a.mode = mode == 0 ? "storing" : "syntax_only";
            // keyword text is delivered as written (any case): normalise for comparison
            for (auto &e : a.obs) if (e.kind == EV_KEYWORD) { std::string w = e.what; for (auto &ch : w) ch = (char) tolower(ch); e.what = w; }
            if (bytes.empty() && a.obs.empty()) { seqs[mode] = out.events; rcs[mode] = out.rc; if (out.cif) { int rc = cif_destroy(out.cif); (void) rc; } continue; }   // an empty input is answered without any callback (unspecified)
            a.walk_cif(doc);
            if (a.pos != a.obs.size()) a.fail("extra", strprintf("%zu callback(s) delivered after the expected end of the sequence", a.obs.size() - a.pos));
            if (out.rc != a.rc) DVIOLATE("rc", strprintf("%s:%s!=%s", a.mode.c_str(), rc_name(out.rc), rc_name(a.rc)), "cif_parse returned %s, the handler program prescribes %s (%s mode)", rc_name(out.rc), rc_name(a.rc), a.mode.c_str());
            g_stats.cover(hmix(hstr("c15"), hmix((uint64_t) mode, (uint64_t) (a.rc + 5) * 2 + (a.stopped ? 1 : 0))));
            for (int k = 0; k < 11; ++k) for (int x : om.hp.resp[k]) g_stats.cover(hmix(hmix(hstr("c15r"), (uint64_t) k), hmix((uint64_t) (x + 5), (uint64_t) mode)));
            if (mode == 0 && !a.stopped) {
                if (!out.cif) DVIOLATE("stored", "no_cif", "no CIF was produced");
                MCif got = dump_cif(out.cif, prop), want = expected_model(a.stored);
                // a loop all of whose packets were bypassed has no content to store: a parse that ran to completion leaves no packet-less
                // loop behind, in a data block or in a save frame (the data model does not allow one; cif_walk / cif_write reject it)
                std::function<const MCont *(const MCont &)> hollow = [&](const MCont &c) -> const MCont * { for (auto &l : c.loops) if (l.packets.empty()) return &c; for (auto &f : c.frames) if (const MCont *h = hollow(f)) return h; return NULL; };
                if (out.rc == CIF_OK) for (auto &bk : got.blocks) if (const MCont *h = hollow(bk)) DVIOLATE("stored", "empty_loop_left", "the parse ran to completion but left a loop without packets in container %s (every packet of it was bypassed by the handlers)", u8(h->code_orig).c_str());
                DumpOpts dop; dop.drop_empty_loops = true;
                std::string x = canon(want, dop), y = canon(got, dop);
                if (x != y && a.saw_item_cut) {
                    // second admissible reading for packets cut short by SKIP_SIBLINGS from one of their items
                    Acceptor b2; b2.obs = a.obs; b2.hp = &om.hp; memset(b2.ord, 0, sizeof b2.ord); b2.syn = a.syn; b2.storing = true; b2.mode = a.mode; b2.keep_cut_packets = true; b2.walk_cif(doc);
                    std::string x2 = canon(expected_model(b2.stored), dop);
                    if (x2 == y) { g_stats.inc("c15.cut_packet_kept"); x = y; }
                }
                if (x != y) DVIOLATE("stored", all_continue ? "all_continue" : "filtered", "stored content differs from what the handler program lets through: %s", first_diff(x, y).c_str());
            }
            // whitespace / syntax callbacks arrive in document order
            size_t last = 0; for (auto &e : out.events) if (e.kind >= EV_WS && e.kind <= EV_DATANAME) { if (e.line < last) DVIOLATE("order", "syntax_line_order", "syntax callbacks are not in document order (line %zu after line %zu)", e.line, last); last = e.line; }
        } catch (Violation &v) { bad.reset(new Violation(v)); }
        seqs[mode] = out.events; rcs[mode] = out.rc;
        if (out.cif) { int rc = cif_destroy(out.cif); (void) rc; }
        if (bad) throw *bad;
    }
    // the same sequence of handler, syntax and error callbacks in both modes (container handles are not compared)
    {
        auto norm = [](const std::vector<HEvt> &v) { std::vector<std::string> o; for (auto &e : v) { bool cont = e.kind >= EV_BLOCK_START && e.kind <= EV_FRAME_END; o.push_back(strprintf("%d:", e.kind) + (cont ? std::string() : e.what)); } return o; };
        std::vector<std::string> a = norm(seqs[0]), b = norm(seqs[1]);
        if (a != b) { size_t i = 0; while (i < a.size() && i < b.size() && a[i] == b[i]) ++i; DVIOLATE("syntax_only_same", strprintf("k%s", i < a.size() ? a[i].substr(0, a[i].find(':')).c_str() : "end"), "storing and syntax-only parses deliver different callback sequences from position %zu: storing has %s, syntax-only has %s", i, i < a.size() ? a[i].substr(0, 80).c_str() : "(end)", i < b.size() ? b[i].substr(0, 80).c_str() : "(end)"); }
        if (rcs[0] != rcs[1]) DVIOLATE("syntax_only_same", "rc", "storing parse returned %s, syntax-only parse %s", rc_name(rcs[0]), rc_name(rcs[1]));
    }
    return res;
}

// ------------------------------------------------------------------------------------------------ C11
static std::vector<unsigned char> enc_text(const ustr &t, int enc, bool bom) {
    // enc: 0 UTF-8, 1 UTF-16LE, 2 UTF-16BE, 3 UTF-32LE, 4 UTF-32BE, 5 ISO-8859-1
    std::vector<unsigned char> o;
    auto put16 = [&](unsigned v, bool le) { if (le) { o.push_back(v & 0xff); o.push_back((v >> 8) & 0xff); } else { o.push_back((v >> 8) & 0xff); o.push_back(v & 0xff); } };
    auto put32 = [&](uint32_t v, bool le) { for (int i = 0; i < 4; ++i) o.push_back((unsigned char) (le ? (v >> (8 * i)) : (v >> (8 * (3 - i))))); };
    switch (enc) {
        case 1: case 2: if (bom) put16(0xfeff, enc == 1); for (char16_t c : t) put16(c, enc == 1); break;
        case 3: case 4: if (bom) put32(0xfeff, enc == 3); for (size_t i = 0; i < t.size(); ++i) { uint32_t c = t[i]; if (c >= 0xd800 && c <= 0xdbff && i + 1 < t.size()) { c = 0x10000 + ((c - 0xd800) << 10) + (t[i + 1] - 0xdc00); ++i; } put32(c, enc == 3); } break;
        case 5: for (char16_t c : t) o.push_back((unsigned char) c); break;
        default: if (bom) { o.push_back(0xef); o.push_back(0xbb); o.push_back(0xbf); } { std::vector<unsigned char> u = to_utf8(t); o.insert(o.end(), u.begin(), u.end()); }
    }
    return o;
}
static const char *const ENCN[] = { "UTF-8", "UTF-16LE", "UTF-16BE", "UTF-32LE", "UTF-32BE", "ISO-8859-1" };
RunResult run_c11(const RunSpec &spec) {
    const char *prop = "C11";
    RunResult res;
    g_plan_n_ops = 0; g_plan_fault_ops.clear(); plan_ready();
    Rng r(hmix(run_seed_of(spec), hstr("c11")));
    int magic = (int) r.below(5);                   // 0 none, 1 #\#CIF_1.1, 2 #\#CIF_1.0, 3 #\#CIF_2.0, 4 2.0 magic on line 2 (= none)
    static const int PS[] = { -5, 0, 1, 19, 20, 1000 }; int P = PS[r.below(6)];
    int enc = (int) r.below(6); bool bom = enc >= 1 && enc <= 4 ? true : (enc == 0 ? r.chance(1, 2) : false);
    int force = r.chance(1, 4) ? 1 : 0;
    int dsel = (int) r.below(3);                    // default_encoding_name: 0 NULL, 1 the true encoding, 2 a wrong one
    // process default converter: ICU in this image is built with U_CHARSET_IS_UTF8, so ucnv_setDefaultName() is a no-op and the
    // "system default" is always UTF-8 -- that dimension of the table cannot be varied here
    int envc = 0; (void) r.below(3);
    bool mid_bom = r.chance(1, 5);
    if (enc == 5) mid_bom = false;           // U+FEFF has no ISO-8859-1 encoding
    if (spec.mods.default_env) envc = 0;
    ustr t;
    // what follows the version code on its line: nothing, blanks / tabs (the code is recognised all the same), or CR LF
    static const char *const TAIL[] = { "\n", "\n", " \n", "\t\n", "  \t \n", "\r\n", " \r\n" }; ustr tail = U(TAIL[r.below(7)]);
    if (magic == 1) t += U("#\\#CIF_1.1") + tail; else if (magic == 2) t += U("#\\#CIF_1.0") + tail; else if (magic == 3) t += U("#\\#CIF_2.0") + tail; else if (magic == 4) t += U("# first line\n#\\#CIF_2.0") + tail;
    ustr eacute; eacute += (char16_t) 0xe9;
    t += U("data_d\n_q '''x y'''\n_n '") + eacute + U("'\n");
    if (mid_bom) { t += U("# a byte-order mark in the middle: "); t += (char16_t) 0xfeff; t += U("\n"); }
    t += U("_z 1\n");
    std::vector<unsigned char> bytes = enc_text(t, enc, bom);
    // ---- the documented decision table
    int dialect; bool has20 = magic == 3, other_magic = magic == 1 || magic == 2;
    if (P < 0) dialect = 1; else if (P >= 20) dialect = 2; else if (has20) dialect = 2; else if (other_magic) dialect = 1; else dialect = P > 0 ? 2 : 1;
    const char *dname = dsel == 0 ? NULL : (dsel == 1 ? ENCN[enc] : (enc == 5 ? "UTF-8" : "ISO-8859-1"));
    static const char *const ENVN[] = { "UTF-8", "ISO-8859-1", "US-ASCII" };
    std::string sysdef = ENVN[envc];
    std::string decoder;                             // expected decoder
    if (force) decoder = dname ? dname : sysdef;
    else if (bom) decoder = ENCN[enc];
    else if (dialect == 2) decoder = "UTF-8";
    else decoder = dname ? dname : sysdef;
    bool decoder_is_true = decoder == ENCN[enc];
    // cells the property does not pin are not generated: a Unicode signature overridden by force with a byte-incompatible decoder
    // still has a defined decoder, fine; UTF-16/32 without signature never occurs here (bom is always set for them)
    g_env.converter = envc == 0 ? 1 : (envc == 1 ? 2 : 3); g_env.apply();
    ParseOpts o; o.policy = 1; o.target = 1; o.prefer_cif2 = P; o.force_default = force; o.default_encoding = dname;
    Knobs kn = gen_knobs(r, true); if (spec.mods.default_knobs) kn = Knobs();
    kn.apply();
    StreamCfg sc;
    ev("C11 magic=%d P=%d enc=%s bom=%d force=%d dname=%s env=%s mid_bom=%d -> expect dialect %d decoder %s", magic, P, ENCN[enc], bom ? 1 : 0, force, dname ? dname : "NULL", sysdef.c_str(), mid_bom ? 1 : 0, dialect, decoder.c_str());
    ParseOutcome out = run_parse(bytes, o, sc, NULL);
    Knobs::reset(); g_env.reset();
    ev("cif_parse -> %s errors: %s", rc_name(out.rc), errs_str(out.errs, 10).c_str());
    g_stats.cover(hmix(hmix(hstr("c11"), (uint64_t) magic * 6 + (uint64_t) (P < 0 ? 0 : P == 0 ? 1 : P < 20 ? 2 : 3)), hmix((uint64_t) enc * 2 + (bom ? 1 : 0), (uint64_t) force * 9 + (uint64_t) dsel * 3 + (uint64_t) envc)));
    std::unique_ptr<Violation> bad;
    std::string cell = strprintf("magic%d:P%d:%s:bom%d:force%d", magic, P < 0 ? -1 : P == 0 ? 0 : P < 20 ? 1 : 20, ENCN[enc], bom ? 1 : 0, force);
    try {
        bool wrong_reported = false; int n_disallowed = 0;
        for (auto &e : out.errs) { if (e.code == CIF_WRONG_ENCODING) wrong_reported = true; if (e.code == CIF_DISALLOWED_CHAR) ++n_disallowed; }
        if (out.rc != CIF_OK || !out.cif) DVIOLATE("version", cell + ":rc", "all errors were accepted but cif_parse returned %s", rc_name(out.rc));
        // observed dialect: how the triple-quoted probe was read (only meaningful when the decoder can read ASCII-compatible text correctly)
        // (a signature decoded by a forced, different decoder turns into junk characters in front of the version comment: not pinned)
        bool ascii_compatible_decode = decoder_is_true || (!bom && (enc == 0 || enc == 5) && (decoder == "UTF-8" || decoder == "ISO-8859-1" || decoder == "US-ASCII"));
        if (ascii_compatible_decode) {
            MCif got = dump_cif(out.cif, prop);
            int observed = 0; ustr ntext; bool have_n = false;
            for (auto &b : got.blocks) for (auto &l : b.loops) for (auto &p : l.packets) for (auto &kv : p.vals) if (kv.second) { if (kv.first == U("_q")) observed = kv.second->text == U("x y") ? 2 : (kv.second->text == U("''x y''") ? 1 : -1); if (kv.first == U("_n")) { ntext = kv.second->text; have_n = true; } }
            if (observed != dialect) DVIOLATE("version", strprintf("observed%d:expected%d:magic%d:P%d:bom%d:force%d", observed, dialect, magic, P < 0 ? -1 : P == 0 ? 0 : P < 20 ? 1 : 20, bom ? 1 : 0, force), "input was parsed as CIF %s, the documented rules select CIF %s (magic kind %d, prefer_cif2 %d, %s%s, force %d)", observed == 2 ? "2.0" : observed == 1 ? "1.1" : "?", dialect == 2 ? "2.0" : "1.1", magic, P, ENCN[enc], bom ? "+BOM" : "", force);
            if (decoder_is_true && (!have_n || ntext != eacute)) DVIOLATE("encoding", strprintf("%s:dname%d:force%d", ENCN[enc], dsel, force), "text decoded with the expected decoder %s does not read back (got %s)", decoder.c_str(), have_n ? u8(ntext).c_str() : "nothing");
            if (decoder_is_true) { bool want_wrong = dialect == 2 && decoder != "UTF-8"; if (wrong_reported != want_wrong) DVIOLATE("wrong_encoding", cell, "CIF_WRONG_ENCODING %s reported for dialect %d decoded as %s", wrong_reported ? "was" : "was not", dialect, decoder.c_str()); }
            if (decoder_is_true && dialect == 2) { int want = mid_bom ? 1 : 0; if (n_disallowed != want) DVIOLATE("bom", cell, "CIF 2.0 input with %s byte-order mark inside: %d CIF_DISALLOWED_CHAR report(s), expected %d (errors: %s)", mid_bom ? "a" : "no", n_disallowed, want, errs_str(out.errs, 10).c_str()); }
        }
    } catch (Violation &v) { bad.reset(new Violation(v)); }
    std::string ref_dump;
    if (out.cif) { int rc = cif_destroy(out.cif); (void) rc; }
    if (bad) throw *bad;
    // the selected decoder is applied through the last byte: input that ends inside a character (an odd byte of UTF-16, a lone lead
    // surrogate, a partial UTF-32 unit, a cut UTF-8 sequence) is an invalid code sequence in that encoding -> CIF_INVALID_CHAR is reported
    if (spec.run % 3 == 1 && decoder_is_true && !force && enc <= 4) {
        ustr clef; clef += (char16_t) 0xd834; clef += (char16_t) 0xdd1e;
        std::vector<unsigned char> tail = enc_text(clef, enc, false); size_t keep = (size_t) r.range(1, 3);
        std::vector<unsigned char> cut = bytes; cut.insert(cut.end(), tail.begin(), tail.begin() + (long) keep);
        ParseOutcome oc = run_parse(cut, o, sc, NULL);
        bool reported = false; for (auto &e : oc.errs) if (e.code == CIF_INVALID_CHAR) reported = true;
        ev("truncated-character probe: %zu of %zu bytes of U+1D11E appended -> %s errors: %s", keep, tail.size(), rc_name(oc.rc), errs_str(oc.errs, 10).c_str());
        if (oc.cif) { int rc = cif_destroy(oc.cif); (void) rc; }
        g_stats.inc("c11.truncated_char_probe");
        if (!reported) DVIOLATE("encoding", strprintf("truncated_char_unreported:%s", ENCN[enc]), "input decoded as %s ends %zu byte(s) into a %zu-byte character, but no CIF_INVALID_CHAR was reported (errors: %s)", ENCN[enc], keep, tail.size(), errs_str(oc.errs, 10).c_str());
    }
    // same text under every signature-carrying encoding gives the same content (and the same dialect)
    if (spec.run % 3 == 0) {
        std::string first; int first_enc = -1;
        for (int e2 = 0; e2 <= 4; ++e2) {
            ParseOpts o2; o2.policy = 1; o2.target = 1; o2.prefer_cif2 = P;
            ParseOutcome oc = run_parse(enc_text(t, e2, true), o2, sc, NULL);
            std::string d; if (oc.cif) { try { d = canon(dump_cif(oc.cif, prop)); } catch (Violation &v) { d = "dump failed: " + v.detail; } int rc = cif_destroy(oc.cif); (void) rc; }
            if (first_enc < 0) { first = d; first_enc = e2; }
            else if (d != first) DVIOLATE("same_content", strprintf("%s:magic%d:P%d", ENCN[e2], magic, P < 0 ? -1 : P == 0 ? 0 : P < 20 ? 1 : 20), "the same text with a %s signature and with a %s signature yields different content: %s", ENCN[first_enc], ENCN[e2], first_diff(first, d).c_str());
        }
    }
    return res;
}
