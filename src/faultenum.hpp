// faultenum.hpp -- allocation-failure enumeration around one API call (C17), shared by the value / doc / walk workloads.
// The api engine has its own copy integrated with its model (ApiRun::api).
#pragma once
#include "sim.hpp"
#include <functional>
#include <sqlite3.h>

// Walk of the failure index: every k up to a dense prefix (24 in the quick tier, 200 in the thorough tier), then strides that grow
// with k, so that the number of attempts per call stays bounded (a call with thousands of allocations is re-executed once per
// attempt); which sites beyond the prefix are hit varies with the seed.
static inline long next_k(long k, bool quick, Rng &skip) {
    if (quick) return k <= 24 ? k + 1 : k + 1 + (long) skip.below((uint64_t) std::max<long>(4, k / 12));
    return k <= 200 ? k + 1 : k + 1 + (long) skip.below((uint64_t) std::max<long>(2, k / 60));
}
struct FaultEnum {
    bool enabled = false; bool quick = true;
    std::string prop = "C17";
    uint64_t seed = 0; long steps = 0;
    bool allow_cb_code = false; int cb_code = 0;            // cif_parse may also return what the error callback returned
    TxMonitor txm; sqlite3 *watch_db = NULL;                 // connection of the CIF the workload operates on (no iterator open between calls)
    bool idempotent = false;                                  // f may be repeated after it succeeded (cif_parse into a fresh CIF, cif_walk)
    std::function<void(const char *fn, long k, int rc)> after_absorbed;   // validation of an attempt that completed although an allocation failed
    std::function<void(const char *fn, long k)> after_failed;   // invariant check after a failed attempt (state valid / unchanged)
    // f must be re-invocable; returns the return code of the attempt during which no allocation failed
    template <class F> int call(const char *fn, F f, bool null_on_failure_fn = false) {
        ++g_stats.events;
        if (!enabled) return f();
        uint64_t h = hmix(hmix(seed, hstr(fn)), (uint64_t) steps);
        bool sq = (h & 3) == 0;          // the value workload never reaches SQLite; keep most of the budget on the libcif heap
        AllocSeam &A = sq ? g_salloc : g_lalloc;
        Rng skip(h);
        for (long k = 1; k < 200000;) {
            A.arm(k); int rc = f(); bool fired = A.fired; A.disarm();
            if (!fired) return rc;
            // absorbed failures (SQLite's own recovery, the library's retry of a buffer growth with a smaller request): the
            // call completed normally and is judged by the model like the unfaulted execution
            if (rc != CIF_MEMORY_ERROR && rc != CIF_ERROR && !(allow_cb_code && cb_code != 0 && rc == cb_code) && !null_on_failure_fn && idempotent) {
                // the call can simply be made again (fresh target / read-only): validate this attempt like the unfaulted one and go on
                // with the next allocation site, so that an early absorbed failure (e.g. inside a user callback) does not end the walk
                g_stats.inc(sq ? "fault.alloc_sqlite.absorbed" : "fault.alloc_libcif.absorbed"); ev("%s: %s allocation failure #%ld absorbed -> %s (continuing)", fn, sq ? "storage-engine" : "library", k, rc_name(rc));
                txm.check(prop, fn, rc, watch_db, "the CIF", sq, k);
                if (after_absorbed) { try { after_absorbed(fn, k, rc); } catch (Violation &v) { v.detail += strprintf(" [%s allocation #%ld failed at %s]", sq ? "storage-engine" : "library", k, A.describe_fire().c_str()); throw; } }
                ++steps; k = next_k(k, quick, skip);
                continue;
            }
            if (rc != CIF_MEMORY_ERROR && rc != CIF_ERROR && !(allow_cb_code && cb_code != 0 && rc == cb_code) && !null_on_failure_fn) { g_stats.inc(sq ? "fault.alloc_sqlite.absorbed" : "fault.alloc_libcif.absorbed"); ev("%s: %s allocation failure #%ld absorbed -> %s", fn, sq ? "storage-engine" : "library", k, rc_name(rc)); txm.check(prop, fn, rc, watch_db, "the CIF", sq, k); return rc; }
            ++steps;
            g_stats.inc(sq ? "fault.alloc_sqlite.fired" : "fault.alloc_libcif.fired");
            g_stats.cover(hmix(hmix(hstr(fn), (uint64_t) k * 2 + (sq ? 1 : 0)), (uint64_t) rc));
            ev("%s under %s allocation failure #%ld -> %s", fn, sq ? "sqlite" : "libcif", k, rc_name(rc));
            bool ok = rc == CIF_MEMORY_ERROR || rc == CIF_ERROR || (allow_cb_code && cb_code != 0 && rc == cb_code);
            if (null_on_failure_fn) ok = true;
            if (!ok) throw Violation(prop + ".code", strprintf("%s:%s:%s", fn, sq ? "sqlite" : "libcif", rc_name(rc)), strprintf("%s returned %s when %s allocation #%ld failed (CIF_MEMORY_ERROR or CIF_ERROR required)", fn, rc_name(rc), sq ? "storage-engine" : "library", k), -1);
            txm.check(prop, fn, rc, watch_db, "the CIF", sq, k);
            if (after_failed) { try { after_failed(fn, k); } catch (Violation &v) { v.detail += strprintf(" [%s allocation #%ld failed at %s]", sq ? "storage-engine" : "library", k, A.describe_fire().c_str()); throw; } }
            k = next_k(k, quick, skip);
        }
        throw Violation(prop + ".enumeration", fn, "more than 200000 allocation sites in one call", -1);
    }
};
