// eng_api_ops.cpp -- op implementations of the api engine: each op computes what the documented data model
// prescribes, performs the real call(s), compares status and out-parameters, and applies the model delta.
#include "apieng.hpp"
#include <sqlite3.h>
extern "C" {
#include "internal/ciftypes.h"
}
#define CALL(fnname, expr) api(fnname, [&]() { return (expr); })
#define CALLI(fnname, expr) api(fnname, [&]() { return (expr); }, A_ITER)
#define CALLN(fnname, expr) api(fnname, [&]() { return (expr); }, A_NOENUM)
#define SKIP(why) do { ev("skip %s: %s", opk_name(o.k), why); g_stats.inc(std::string("op.skipped.") + opk_name(o.k)); return; } while (0)

static const std::vector<ustr> &cats() {
    static std::vector<ustr> p;
    if (p.empty()) { p.push_back(U("cat1")); p.push_back(U("CAT1")); p.push_back(U("atom_site")); p.push_back(U("c 2")); ustr e; e += (char16_t) 0xe9; p.push_back(e); }
    return p;
}
static int depth_of(MCif &m, uint64_t uid) {
    std::function<int(MCont &, int)> rec = [&](MCont &c, int d) -> int { if (c.uid == uid) return d; for (auto &f : c.frames) { int r = rec(f, d + 1); if (r >= 0) return r; } return -1; };
    for (auto &b : m.blocks) { int r = rec(b, 0); if (r >= 0) return r; }
    return -1;
}
static MCont *parent_of(MCif &m, uint64_t uid, bool &is_block) {
    is_block = false;
    for (auto &b : m.blocks) if (b.uid == uid) { is_block = true; return NULL; }
    std::function<MCont *(MCont &)> rec = [&](MCont &c) -> MCont * { for (auto &f : c.frames) { if (f.uid == uid) return &c; if (MCont *r = rec(f)) return r; } return NULL; };
    for (auto &b : m.blocks) if (MCont *r = rec(b)) return r;
    return NULL;
}

uint64_t ApiRun::prestate(int cif, MCont *c, MLoop *l) {
    uint64_t h = 0;
    if (cif >= 0) h = hmix(h, cifs[(size_t) cif].iter >= 0 ? 2 : 1);
    if (c) { h = hmix(h, std::min<size_t>(c->loops.size(), 3)); MLoop *s = c->scalar_loop(); h = hmix(h, s ? (s->packets.empty() ? 1 : 2) : 0); h = hmix(h, std::min<size_t>(c->frames.size(), 2)); }
    if (l) { h = hmix(h, std::min<size_t>(l->packets.size(), 3)); h = hmix(h, std::min<size_t>(l->names.size(), 3)); h = hmix(h, l->is_scalar() ? 1 : 0); }
    return h;
}
// The simulated disk fails only inside the library calls of the op the fault is attached to (api() arms / disarms around
// each call); the harness's own queries (dumps, handle look-ups) always see a healthy disk.
void ApiRun::arm_faults(const Op &o) { if (o.fault_kind >= 1 && o.fault_kind <= 6) { g_disk.arm(o.fault_kind, o.fault_at, o.fault_code, o.fault_sticky); g_disk.armed = false; disk_plan_active = true; g_stats.inc("fault.disk.configured"); } }
void ApiRun::disarm_faults() { g_disk.disarm(); disk_plan_active = false; }
bool ApiRun::fault_fired() const { return g_disk.fired; }
void ApiRun::after_mutation(int cif, bool failed) {
    ++mutation_counter;
    if (failed || dump_every == 1 || (dump_every > 1 && mutation_counter % dump_every == 0)) check_dump(cif, failed ? "after a failed call" : "after the call");
}
bool ApiRun::would_strand(MLoop *l, const ustr &norm) {
    if (l->names.size() <= 1) return false;     // the whole loop goes away
    for (auto &p : l->packets) { bool other = false; for (auto &kv : p.vals) if (kv.first != norm && kv.second) other = true; if (!other) return true; }
    return false;
}

// ------------------------------------------------------------------------------------------------ dispatcher
void ApiRun::exec(const Op &o) {
    ev("op %d %s", cur_op, opk_name(o.k));
    g_stats.inc(std::string("op.") + opk_name(o.k));        // reach: how often each op kind was attempted (see also op.skipped.*)
    bool disk_faulted = o.fault_kind >= 1 && o.fault_kind <= 6;
    if (disk_faulted) arm_faults(o);
    // a quarter of the read-only look-ups may be aimed at a CIF on which an iterator is open (any container but the one holding the
    // iterated loop): defined behaviour, which must neither disturb the iteration nor report anything but the current content
    beside_ok = !cfg.weights[O_PlantFail] && !cfg.enumerate_alloc && (o.seed % 4 == 1) && (o.k == O_BlockGet || o.k == O_BlocksAll || o.k == O_FrameGet || o.k == O_FramesAll || o.k == O_LoopByCat || o.k == O_LoopByItem);
    try {
        switch (o.k) {
            case O_CifCreate: op_cif_create(o); break; case O_CifDestroy: op_cif_destroy(o); break;
            case O_BlockCreate: op_block_create(o); break; case O_BlockGet: op_block_get(o); break; case O_BlocksAll: op_blocks_all(o); break;
            case O_FrameCreate: op_frame_create(o); break; case O_FrameGet: op_frame_get(o); break; case O_FramesAll: op_frames_all(o); break;
            case O_ContDestroy: op_cont_destroy(o); break; case O_ContCode: op_cont_code(o); break;
            case O_LoopCreate: op_loop_create(o); break; case O_LoopByCat: op_loop_by_cat(o); break; case O_LoopByItem: op_loop_by_item(o); break; case O_LoopsAll: op_loops_all(o); break;
            case O_Prune: op_prune(o); break; case O_GetValue: op_get_value(o); break; case O_SetValue: op_set_value(o); break; case O_RemoveItem: op_remove_item(o); break;
            case O_LoopDestroy: op_loop_destroy(o); break; case O_LoopCat: op_loop_cat(o); break; case O_LoopNames: op_loop_names(o); break; case O_LoopSetCat: op_loop_set_cat(o); break;
            case O_LoopAddItem: op_loop_add_item(o); break; case O_LoopAddPacket: op_loop_add_packet(o); break;
            case O_IterOpen: op_iter_open(o); break; case O_IterNext: op_iter_next(o); break; case O_IterUpdate: op_iter_update(o); break; case O_IterRemove: op_iter_remove(o); break;
            case O_IterClose: op_iter_end(o, false); break; case O_IterAbort: op_iter_end(o, true); break;
            case O_HandleFree: op_handle_free(o); break; case O_Dump: check_all_dumps("at a Dump op"); break; case O_Walk: op_walk(o); break;
            case O_Checkpoint: op_checkpoint(o); break; case O_PlantFail: op_plant_fail(o); break; case O_PacketNew: op_packet_new(o); break; case O_ParseInto: op_parse_into(o); break;
            default: break;
        }
    } catch (...) { beside_ok = false; if (disk_faulted) disarm_faults(); throw; }
    beside_ok = false;
    if (disk_faulted) {
        bool fired = g_disk.fired;
        disarm_faults();
        if (fired) check_all_dumps("after a storage fault");
    }
}

// In storage-fault runs the strict expectation is relaxed narrowly: if the simulated disk failed during this op, any
// error status is accepted (and then the model is left unchanged); CIF_OK means the full effect must be visible.
#define RELAX_FAULT(rc) (fault_fired() && (rc) != CIF_OK)

// ------------------------------------------------------------------------------------------------ CIFs
void ApiRun::op_cif_create(const Op &o) {
    int live = 0; for (auto &c : cifs) if (c.cif) ++live;
    if (live >= cfg.max_cifs) SKIP("enough CIFs");
    cif_tp *cif = NULL;
    int rc = CALL("cif_create", (cif = NULL, cif_create(&cif)));
    if (RELAX_FAULT(rc)) { ev("cif_create -> %s under a storage fault", rc_name(rc)); if (cif) violate("result", "cif_create:handle_on_failure", "cif_create failed but stored a handle"); return; }
    expect_rc("cif_create", rc, {CIF_OK});
    if (!cif) violate("result", "cif_create:null", "cif_create returned CIF_OK without a handle");
    RCif r; r.cif = cif; cifs.push_back(r);
    cover(o.k, rc, 0);
}
void ApiRun::op_cif_destroy(const Op &o) {
    int live = 0; for (auto &c : cifs) if (c.cif) ++live;
    if (live < 2) SKIP("would leave no CIF");
    int ci = pick_cif(o.a);
    RCif &c = cifs[(size_t) ci];
    if (c.iter >= 0) { HIter &it = iters[(size_t) c.iter]; int rc = CALLN("cif_pktitr_abort", cif_pktitr_abort(it.it)); it.it = NULL; loops[(size_t) it.loop_slot].locked = false; c.model = it.snapshot; c.iter = -1; expect_rc("cif_pktitr_abort", rc, {CIF_OK}); }
    for (size_t k = 0; k < loops.size(); ++k) if (loops[k].h && loops[k].cif == ci) free_loop_slot((int) k);
    for (size_t k = 0; k < conts.size(); ++k) if (conts[k].h && conts[k].cif == ci) { cif_container_free(conts[k].h); conts[k].h = NULL; }
    free_zombies(ci);
    int rc = CALLN("cif_destroy", cif_destroy(c.cif));
    c.cif = NULL; c.model = MCif();
    expect_rc("cif_destroy", rc, {CIF_OK});
    cover(o.k, rc, 0);
}

// ------------------------------------------------------------------------------------------------ blocks and frames
void ApiRun::op_block_create(const Op &o) {
    int ci = pick_cif(o.a); if (ci < 0) SKIP("no CIF");
    RCif &c = cifs[(size_t) ci];
    bool in_tx = c.iter >= 0;
    if (in_tx && !cfg.weights[O_PlantFail]) SKIP("iterator open");
    ustr code = code_str(o.code, o.simple); ustr norm = mnorm(code);
    bool want = (o.b % 4) != 0;
    cif_block_tp *h = NULL;
    int rc = CALL("cif_create_block", (h = NULL, cif_create_block(c.cif, o.null_arg ? NULL : UC(code), want ? &h : NULL)));
    uint64_t pre = prestate(ci, NULL, NULL);
    cover(o.k, rc, pre);
    if (RELAX_FAULT(rc)) { ev("cif_create_block -> %s under a storage fault", rc_name(rc)); }
    else if (o.null_arg) expect_rc("cif_create_block", rc, {CIF_ARGUMENT_ERROR});
    else if (in_tx) expect_rc("cif_create_block", rc, {}, true);
    else if (o.code.invalid >= 0) expect_rc("cif_create_block", rc, {CIF_INVALID_BLOCKCODE});
    else if (c.model.block(norm)) expect_rc("cif_create_block", rc, {CIF_DUP_BLOCKCODE});
    else expect_rc("cif_create_block", rc, {CIF_OK});
    if (rc != CIF_OK) { if (h) violate("result", "cif_create_block:handle_on_failure", "a block handle was recorded although the call failed"); after_mutation(ci, true); return; }
    MCont b; b.code_orig = code; b.code_norm = norm; b.uid = new_uid();
    c.model.blocks.push_back(b);
    if (want) { if (!h) violate("result", "cif_create_block:null", "no handle recorded on success"); add_cont(h, ci, b.uid); }
    probe_zombies(ci, "after a block was created");
    after_mutation(ci, false);
}
void ApiRun::op_block_get(const Op &o) {
    int ci = pick_cif(o.a); if (ci < 0) SKIP("no CIF");
    RCif &c = cifs[(size_t) ci];
    if (c.iter >= 0 && !beside_ok) SKIP("iterator open");
    if (c.iter >= 0) g_stats.inc("api.query_beside_iterator");
    ustr code = code_str(o.code, o.simple); ustr norm = mnorm(code);
    bool want = (o.b % 5) != 0;
    cif_block_tp *h = NULL;
    int rc = CALL("cif_get_block", (h = NULL, cif_get_block(c.cif, UC(code), want ? &h : NULL)));
    cover(o.k, rc, prestate(ci, NULL, NULL));
    MCont *m = (o.code.invalid >= 0) ? NULL : c.model.block(norm);
    if (RELAX_FAULT(rc)) { ev("cif_get_block -> %s under a storage fault", rc_name(rc)); return; }
    if (o.code.invalid >= 0) expect_rc("cif_get_block", rc, {CIF_NOSUCH_BLOCK, CIF_INVALID_BLOCKCODE});
    else if (!m) expect_rc("cif_get_block", rc, {CIF_NOSUCH_BLOCK});
    else expect_rc("cif_get_block", rc, {CIF_OK});
    if (rc != CIF_OK) { if (h) violate("result", "cif_get_block:handle_on_failure", "handle recorded on failure"); return; }
    if (want) {
        if (!h) violate("result", "cif_get_block:null", "no handle recorded on success");
        UChar *cd = NULL; int r2 = CALL("cif_container_get_code", (cd = NULL, cif_container_get_code(h, &cd)));
        expect_rc("cif_container_get_code", r2, {CIF_OK});
        ustr got = from_uchar(cd); lib_free(cd);
        if (got != m->code_orig) { cif_container_free(h); violate("result", "cif_get_block:spelling", strprintf("block created as %s is reported as %s", u8(m->code_orig).c_str(), u8(got).c_str())); }
        if (conts.size() < 40) add_cont(h, ci, m->uid); else cif_container_free(h);
    }
}
void ApiRun::op_blocks_all(const Op &o) {
    int ci = pick_cif(o.a); if (ci < 0) SKIP("no CIF");
    RCif &c = cifs[(size_t) ci];
    if (c.iter >= 0 && !beside_ok) SKIP("iterator open");
    if (c.iter >= 0) g_stats.inc("api.query_beside_iterator");
    cif_block_tp **bs = NULL;
    int rc = CALL("cif_get_all_blocks", (bs = NULL, cif_get_all_blocks(c.cif, &bs)));
    cover(o.k, rc, std::min<size_t>(c.model.blocks.size(), 3));
    if (RELAX_FAULT(rc)) return;
    expect_rc("cif_get_all_blocks", rc, {CIF_OK});
    std::multiset<ustr> got, want;
    for (cif_block_tp **b = bs; *b; ++b) { UChar *cd = NULL; int r2 = cif_container_get_code(*b, &cd); if (r2 == CIF_OK) { got.insert(from_uchar(cd)); lib_free(cd); } cif_container_free(*b); }
    lib_free(bs);
    for (auto &b : c.model.blocks) want.insert(b.code_orig);
    if (got != want) violate("result", "cif_get_all_blocks:set", strprintf("cif_get_all_blocks reports %zu blocks, the model holds %zu (or spellings differ)", got.size(), want.size()));
}
void ApiRun::op_frame_create(const Op &o) {
    int hs = pick_cont(o.a, false); if (hs < 0) SKIP("no container handle");
    int ci = conts[(size_t) hs].cif; RCif &c = cifs[(size_t) ci];
    bool in_tx = c.iter >= 0;
    if (in_tx && !cfg.weights[O_PlantFail]) SKIP("iterator open");
    MCont *p = mcont(hs);
    if (depth_of(c.model, p->uid) >= 3) SKIP("nesting limit");
    ustr code = code_str(o.code, o.simple); ustr norm = mnorm(code);
    bool want = (o.b % 4) != 0;
    cif_frame_tp *h = NULL;
    int rc = CALL("cif_container_create_frame", (h = NULL, cif_container_create_frame(conts[(size_t) hs].h, o.null_arg ? NULL : UC(code), want ? &h : NULL)));
    cover(o.k, rc, prestate(ci, p, NULL));
    if (RELAX_FAULT(rc)) { ev("create_frame -> %s under a storage fault", rc_name(rc)); }
    else if (o.null_arg) expect_rc("cif_container_create_frame", rc, {CIF_ARGUMENT_ERROR, CIF_INVALID_FRAMECODE});
    else if (in_tx) expect_rc("cif_container_create_frame", rc, {}, true);
    else if (o.code.invalid >= 0) expect_rc("cif_container_create_frame", rc, {CIF_INVALID_FRAMECODE});
    else if (p->frame(norm)) expect_rc("cif_container_create_frame", rc, {CIF_DUP_FRAMECODE});
    else expect_rc("cif_container_create_frame", rc, {CIF_OK});
    if (rc != CIF_OK) { if (h) violate("result", "create_frame:handle_on_failure", "a frame handle was recorded although the call failed"); after_mutation(ci, true); return; }
    MCont f; f.code_orig = code; f.code_norm = norm; f.uid = new_uid();
    p = mcont(hs); p->frames.push_back(f);
    if (want) { if (!h) violate("result", "create_frame:null", "no handle recorded on success"); add_cont(h, ci, f.uid); }
    probe_zombies(ci, "after a save frame was created");
    after_mutation(ci, false);
}
void ApiRun::op_frame_get(const Op &o) {
    int hs = pick_cont(o.a, true); if (hs < 0) SKIP("no container handle");
    int ci = conts[(size_t) hs].cif; MCont *p = mcont(hs);
    ustr code = code_str(o.code, o.simple); ustr norm = mnorm(code);
    bool want = (o.b % 5) != 0;
    cif_frame_tp *h = NULL;
    int rc = CALL("cif_container_get_frame", (h = NULL, cif_container_get_frame(conts[(size_t) hs].h, UC(code), want ? &h : NULL)));
    cover(o.k, rc, prestate(ci, p, NULL));
    MCont *m = (o.code.invalid >= 0) ? NULL : p->frame(norm);
    if (RELAX_FAULT(rc)) return;
    if (o.code.invalid >= 0) expect_rc("cif_container_get_frame", rc, {CIF_NOSUCH_FRAME, CIF_INVALID_FRAMECODE});
    else if (!m) expect_rc("cif_container_get_frame", rc, {CIF_NOSUCH_FRAME});
    else expect_rc("cif_container_get_frame", rc, {CIF_OK});
    if (rc != CIF_OK) { if (h) violate("result", "get_frame:handle_on_failure", "handle recorded on failure"); return; }
    if (want) {
        if (!h) violate("result", "get_frame:null", "no handle recorded on success");
        UChar *cd = NULL; int r2 = cif_container_get_code(h, &cd);
        ustr got = (r2 == CIF_OK) ? from_uchar(cd) : ustr(); lib_free(cd);
        if (r2 != CIF_OK || got != m->code_orig) { cif_container_free(h); violate("result", "get_frame:spelling", strprintf("frame created as %s is reported as %s (%s)", u8(m->code_orig).c_str(), u8(got).c_str(), rc_name(r2))); }
        if (conts.size() < 40) add_cont(h, ci, m->uid); else cif_container_free(h);
    }
}
void ApiRun::op_frames_all(const Op &o) {
    int hs = pick_cont(o.a, true); if (hs < 0) SKIP("no container handle");
    MCont *p = mcont(hs);
    cif_frame_tp **fs = NULL;
    int rc = CALL("cif_container_get_all_frames", (fs = NULL, cif_container_get_all_frames(conts[(size_t) hs].h, &fs)));
    cover(o.k, rc, std::min<size_t>(p->frames.size(), 3));
    if (RELAX_FAULT(rc)) return;
    expect_rc("cif_container_get_all_frames", rc, {CIF_OK});
    std::multiset<ustr> got, want;
    for (cif_frame_tp **f = fs; *f; ++f) { UChar *cd = NULL; if (cif_container_get_code(*f, &cd) == CIF_OK) { got.insert(from_uchar(cd)); lib_free(cd); } cif_container_free(*f); }
    lib_free(fs);
    for (auto &f : p->frames) want.insert(f.code_orig);
    if (got != want) violate("result", "get_all_frames:set", strprintf("cif_container_get_all_frames reports %zu frames, the model holds %zu (or spellings differ)", got.size(), want.size()));
}
void ApiRun::op_cont_destroy(const Op &o) {
    int hs = pick_cont(o.a, true); if (hs < 0) SKIP("no container handle");
    int ci = conts[(size_t) hs].cif; RCif &c = cifs[(size_t) ci];
    // keep at least one block so that the history stays interesting
    bool is_block; MCont *par = parent_of(c.model, conts[(size_t) hs].uid, is_block);
    if (is_block && c.model.blocks.size() < 2 && (o.b % 4)) SKIP("last block");
    for (size_t k = 0; k < loops.size(); ++k) if (loops[k].h && loops[k].via == hs) free_loop_slot((int) k);
    cif_container_tp *h = conts[(size_t) hs].h;
    uint64_t uid = conts[(size_t) hs].uid;
    int rc = CALL("cif_container_destroy", cif_container_destroy(h));
    cover(o.k, rc, prestate(ci, mcont(hs), NULL));
    if (RELAX_FAULT(rc)) { ev("container_destroy -> %s under a storage fault", rc_name(rc)); after_mutation(ci, true); return; }
    expect_rc("cif_container_destroy", rc, {CIF_OK});
    conts[(size_t) hs].h = NULL;       // released by the library
    MCont gone = *find_cont(c.model, uid);
    if (is_block) { for (size_t i = 0; i < c.model.blocks.size(); ++i) if (c.model.blocks[i].uid == uid) { c.model.blocks.erase(c.model.blocks.begin() + (long) i); break; } }
    else { for (size_t i = 0; i < par->frames.size(); ++i) if (par->frames[i].uid == uid) { par->frames.erase(par->frames.begin() + (long) i); break; } }
    // "destroying a container removes everything inside it": handles still held on save frames nested in the destroyed container, and
    // on loops of those frames, no longer refer to anything -- a query through them must not succeed (and show the old content)
    {
        std::set<uint64_t> inner; std::function<void(const MCont &)> rec = [&](const MCont &x) { for (auto &f : x.frames) { inner.insert(f.uid); rec(f); } }; rec(gone);
        for (size_t i = 0; i < conts.size(); ++i) if (conts[i].h && conts[i].cif == ci && inner.count(conts[i].uid)) {
            cif_loop_tp **ls = NULL; int r = cif_container_get_all_loops(conts[i].h, &ls); ++g_stats.events; g_stats.inc("api.probe_handle_into_destroyed_container");
            if (r == CIF_OK) { size_t n = 0; if (ls) { for (cif_loop_tp **q = ls; *q; ++q) { cif_loop_free(*q); ++n; } lib_free(ls); } violate(cfg.content_clause, "destroy:nested_frame_survives", strprintf("after cif_container_destroy of its parent, a handle on a nested save frame still works: cif_container_get_all_loops returns CIF_OK with %zu loop(s)", n)); }
        }
        for (size_t k = 0; k < loops.size(); ++k) if (loops[k].h && loops[k].cif == ci && inner.count(loops[k].cont_uid)) {
            UChar **names = NULL; int r = cif_loop_get_names(loops[k].h, &names); ++g_stats.events;
            if (r == CIF_OK) { if (names) { for (UChar **q = names; *q; ++q) lib_free(*q); lib_free(names); } violate(cfg.content_clause, "destroy:nested_loop_survives", "after cif_container_destroy of an enclosing container, a handle on a loop of a nested save frame still works (cif_loop_get_names returns CIF_OK)"); }
        }
    }
    retire_subtree(ci, gone, -1);
    after_mutation(ci, false);
}
void ApiRun::op_cont_code(const Op &o) {
    int hs = pick_cont(o.a, false); if (hs < 0) SKIP("no container handle");
    int ci = conts[(size_t) hs].cif; MCont *m = mcont(hs);
    UChar *cd = NULL;
    int rc = CALL("cif_container_get_code", (cd = NULL, cif_container_get_code(conts[(size_t) hs].h, &cd)));
    expect_rc("cif_container_get_code", rc, {CIF_OK});
    ustr got = from_uchar(cd); lib_free(cd);
    if (got != m->code_orig) violate("result", "get_code:spelling", strprintf("container created as %s reports code %s", u8(m->code_orig).c_str(), u8(got).c_str()));
    int d = depth_of(cifs[(size_t) ci].model, m->uid);
    int r2 = CALLN("cif_container_assert_block", cif_container_assert_block(conts[(size_t) hs].h));
    expect_rc("cif_container_assert_block", r2, {d == 0 ? CIF_OK : CIF_ARGUMENT_ERROR});
    cover(o.k, r2, (uint64_t) d);
}

// ------------------------------------------------------------------------------------------------ loops
void ApiRun::op_loop_create(const Op &o) {
    int hs = pick_cont(o.a, false); if (hs < 0) SKIP("no container handle");
    int ci = conts[(size_t) hs].cif; RCif &c = cifs[(size_t) ci];
    bool in_tx = c.iter >= 0;
    if (in_tx && !cfg.weights[O_PlantFail]) SKIP("iterator open");
    MCont *m = mcont(hs);
    std::vector<ustr> names; for (auto &n : o.names) names.push_back(name_str(n, o.simple));
    std::vector<UChar *> arr; for (auto &n : names) arr.push_back((UChar *) UC(n)); arr.push_back(NULL);
    const UChar *cat = NULL; ustr cats_s;
    if (o.cat_kind == 1) { cats_s = ustr(); cat = UC(cats_s); } else if (o.cat_kind == 2) { cats_s = cats()[(size_t) o.cat_idx % cats().size()]; cat = UC(cats_s); }
    bool want = (o.b % 4) != 0;
    // applicable failure causes
    std::set<int> causes;
    bool any_invalid = false, any_dup = false; std::set<ustr> seen;
    for (size_t i = 0; i < names.size(); ++i) {
        if (o.names[i].invalid >= 0) { any_invalid = true; continue; }
        ustr nn = mnorm(names[i]);
        if (m->loop_of(nn) || !seen.insert(nn).second) any_dup = true;
    }
    if (o.null_arg) causes.insert(CIF_ARGUMENT_ERROR);
    else if (names.empty()) causes.insert(CIF_NULL_LOOP);
    else {
        if (any_invalid) causes.insert(CIF_INVALID_ITEMNAME);
        if (any_dup) causes.insert(CIF_DUP_ITEMNAME);
        if (o.cat_kind == 1 && m->scalar_loop()) causes.insert(CIF_RESERVED_LOOP);
    }
    cif_loop_tp *h = NULL;
    int rc = CALL("cif_container_create_loop", (h = NULL, cif_container_create_loop(conts[(size_t) hs].h, cat, o.null_arg ? NULL : arr.data(), want ? &h : NULL)));
    cover(o.k, rc, hmix(prestate(ci, m, NULL), (uint64_t) names.size() * 8 + (uint64_t) o.cat_kind));
    ev("cif_container_create_loop(%zu names, cat kind %d) -> %s", names.size(), o.cat_kind, rc_name(rc));
    if (RELAX_FAULT(rc)) { }
    else if (!causes.empty()) {
        if (!causes.count(rc)) { std::string e; for (int x : causes) { if (!e.empty()) e += "|"; e += rc_name(x); } violate("rc", strprintf("cif_container_create_loop:%s!=%s", rc_name(rc), e.c_str()), strprintf("cif_container_create_loop returned %s, the data model prescribes %s", rc_name(rc), e.c_str())); }
    } else if (rc != CIF_OK) violate("rc", strprintf("cif_container_create_loop:%s!=CIF_OK", rc_name(rc)), strprintf("cif_container_create_loop returned %s for %zu valid fresh names", rc_name(rc), names.size()));
    if (rc != CIF_OK) { if (h) violate("result", "create_loop:handle_on_failure", "a loop handle was recorded although the call failed"); after_mutation(ci, true); return; }
    MLoop l; l.uid = new_uid(); l.has_cat = cat != NULL; if (cat) l.cat = cats_s;
    for (auto &n : names) { MName mn; mn.orig = n; mn.norm = mnorm(n); l.names.push_back(mn); }
    m = mcont(hs); m->loops.push_back(l);
    if (want) { if (!h) violate("result", "create_loop:null", "no handle recorded on success"); add_loop(h, ci, m->uid, l.uid, hs); }
    after_mutation(ci, false);
}
void ApiRun::op_loop_by_cat(const Op &o) {
    int hs = pick_cont(o.a, true); if (hs < 0) SKIP("no container handle");
    int ci = conts[(size_t) hs].cif; MCont *m = mcont(hs);
    const UChar *cat = NULL; ustr cs;
    if (o.cat_kind == 1) { cat = UC(cs); } else if (o.cat_kind == 2) { cs = cats()[(size_t) o.cat_idx % cats().size()]; cat = UC(cs); }
    std::vector<MLoop *> match; if (cat) for (auto &l : m->loops) if (l.has_cat && l.cat == cs) match.push_back(&l);
    bool want = (o.b % 4) != 0;
    cif_loop_tp *h = NULL;
    int rc = CALL("cif_container_get_category_loop", (h = NULL, cif_container_get_category_loop(conts[(size_t) hs].h, cat, want ? &h : NULL)));
    cover(o.k, rc, hmix(prestate(ci, m, NULL), std::min<size_t>(match.size(), 2)));
    if (RELAX_FAULT(rc)) return;
    if (!cat) expect_rc("cif_container_get_category_loop", rc, {CIF_INVALID_CATEGORY});
    else if (match.empty()) expect_rc("cif_container_get_category_loop", rc, {CIF_NOSUCH_LOOP});
    else if (match.size() > 1) expect_rc("cif_container_get_category_loop", rc, {CIF_CAT_NOT_UNIQUE});
    else expect_rc("cif_container_get_category_loop", rc, {CIF_OK});
    if (rc != CIF_OK) { if (h) violate("result", "get_category_loop:handle_on_failure", "handle recorded on failure"); return; }
    if (want) { if (!h) violate("result", "get_category_loop:null", "no handle recorded on success"); if (loops.size() < 40) add_loop(h, ci, m->uid, match[0]->uid, hs); else cif_loop_free(h); }
}
void ApiRun::op_loop_by_item(const Op &o) {
    int hs = pick_cont(o.a, true); if (hs < 0) SKIP("no container handle");
    int ci = conts[(size_t) hs].cif; MCont *m = mcont(hs);
    ustr name = name_str(o.names[0], o.simple); ustr nn = mnorm(name);
    MLoop *l = (o.names[0].invalid >= 0) ? NULL : m->loop_of(nn);
    bool want = (o.b % 4) != 0;
    cif_loop_tp *h = NULL;
    int rc = CALL("cif_container_get_item_loop", (h = NULL, cif_container_get_item_loop(conts[(size_t) hs].h, UC(name), want ? &h : NULL)));
    cover(o.k, rc, prestate(ci, m, l));
    if (RELAX_FAULT(rc)) return;
    expect_rc("cif_container_get_item_loop", rc, {l ? CIF_OK : CIF_NOSUCH_ITEM});
    if (rc != CIF_OK) { if (h) violate("result", "get_item_loop:handle_on_failure", "handle recorded on failure"); return; }
    if (want) { if (!h) violate("result", "get_item_loop:null", "no handle recorded on success"); if (loops.size() < 40) add_loop(h, ci, m->uid, l->uid, hs); else cif_loop_free(h); }
}
void ApiRun::op_loops_all(const Op &o) {
    int hs = (o.c % 3 == 0 && !cfg.weights[O_PlantFail]) ? pick_cont_beside_iter(o.a) : -1;     // a query beside an open iterator (another container of that CIF)
    if (hs >= 0) g_stats.inc("api.query_beside_iterator"); else hs = pick_cont(o.a, true);
    if (hs < 0) SKIP("no container handle");
    int ci = conts[(size_t) hs].cif; MCont *m = mcont(hs);
    cif_loop_tp **ls = NULL;
    int rc = CALL("cif_container_get_all_loops", (ls = NULL, cif_container_get_all_loops(conts[(size_t) hs].h, &ls)));
    cover(o.k, rc, prestate(ci, m, NULL));
    if (RELAX_FAULT(rc)) return;
    expect_rc("cif_container_get_all_loops", rc, {CIF_OK});
    std::multiset<std::string> got, want;
    std::string problem;
    for (cif_loop_tp **l = ls; *l; ++l) {
        UChar *cat = NULL; UChar **names = NULL; std::string s; MLoop *ml = NULL;
        int r1 = cif_loop_get_category(*l, &cat), r2 = cif_loop_get_names(*l, &names);
        if (r1 != CIF_OK || r2 != CIF_OK) problem = strprintf("get_category/get_names -> %s/%s on an enumerated loop", rc_name(r1), rc_name(r2));
        s = cat ? ("\"" + u8(cat) + "\"") : std::string("null"); s += ":";
        std::set<std::string> ns;
        if (names) { for (UChar **n = names; *n; ++n) { ns.insert(u8(*n)); if (!ml) ml = m->loop_of(mnorm(from_uchar(*n))); lib_free(*n); } lib_free(names); }
        for (auto &n : ns) s += n + " ";
        lib_free(cat);
        got.insert(s);
        if (ml && loops.size() < 40 && (o.b % 2)) add_loop(*l, ci, m->uid, ml->uid, hs); else cif_loop_free(*l);
    }
    lib_free(ls);
    if (!problem.empty()) violate("result", "get_all_loops:query", problem);
    for (auto &l : m->loops) { std::string s = l.has_cat ? ("\"" + u8(l.cat) + "\"") : std::string("null"); s += ":"; std::set<std::string> ns; for (auto &n : l.names) ns.insert(u8(n.orig)); for (auto &n : ns) s += n + " "; want.insert(s); }
    if (got != want) violate("result", "get_all_loops:set", strprintf("cif_container_get_all_loops reports %zu loops, the model holds %zu (or categories / name spellings differ)", got.size(), want.size()));
}
void ApiRun::op_prune(const Op &o) {
    int hs = pick_cont(o.a, true); if (hs < 0) SKIP("no container handle");
    int ci = conts[(size_t) hs].cif; MCont *m = mcont(hs);
    int rc = CALL("cif_container_prune", cif_container_prune(conts[(size_t) hs].h));
    cover(o.k, rc, prestate(ci, m, NULL));
    if (RELAX_FAULT(rc)) { after_mutation(ci, true); return; }
    expect_rc("cif_container_prune", rc, {CIF_OK});
    m = mcont(hs);
    for (size_t i = 0; i < m->loops.size();) { if (m->loops[i].packets.empty()) m->loops.erase(m->loops.begin() + (long) i); else ++i; }
    after_mutation(ci, false);
}

// ------------------------------------------------------------------------------------------------ items
void ApiRun::op_get_value(const Op &o) {
    int hs = (o.c % 4 == 0 && !cfg.weights[O_PlantFail]) ? pick_cont_beside_iter(o.a) : -1;     // a query beside an open iterator (another container of that CIF)
    if (hs >= 0) g_stats.inc("api.query_beside_iterator"); else hs = pick_cont(o.a, true);
    if (hs < 0) SKIP("no container handle");
    int ci = conts[(size_t) hs].cif; MCont *m = mcont(hs);
    ustr name = name_str(o.names[0], o.simple); ustr nn = mnorm(name);
    MLoop *l = (o.names[0].invalid >= 0) ? NULL : m->loop_of(nn);
    int mode = (int) (o.d % 3);
    cif_value_tp *v = NULL, *mine = NULL;
    if (mode == 2) { int r = cif_value_create((o.c % 2) ? CIF_LIST_KIND : CIF_CHAR_KIND, &mine); if (r != CIF_OK) SKIP("value create failed"); }
    int rc = CALL("cif_container_get_value", (v = mine, cif_container_get_value(conts[(size_t) hs].h, UC(name), mode == 0 ? NULL : &v)));
    size_t n = l ? l->packets.size() : 0, r = 0;
    std::set<std::string> stored, all;
    if (l) for (auto &p : l->packets) { auto it = p.vals.find(nn); if (it != p.vals.end() && it->second) { ++r; stored.insert(canon(*it->second)); all.insert(canon(*it->second)); } else all.insert(canon(MValue::unk())); }
    cover(o.k, rc, hmix(prestate(ci, m, l), std::min<size_t>(r, 2) * 3 + std::min<size_t>(n, 2)));
    std::set<int> ok; std::set<std::string> okvals;
    auto by_count = [&](size_t k, const std::set<std::string> &vals) { if (k == 0) ok.insert(CIF_NOSUCH_ITEM); else { ok.insert(k == 1 ? CIF_OK : CIF_AMBIGUOUS_ITEM); okvals.insert(vals.begin(), vals.end()); } };
    by_count(r, stored);
    if (r < n) by_count(n, all);      // documentation can be read either way when some packets hold no stored value
    std::unique_ptr<Violation> bad;
    if (RELAX_FAULT(rc)) { }
    else if (!ok.count(rc)) { std::string e; for (int x : ok) { if (!e.empty()) e += "|"; e += rc_name(x); } bad.reset(new Violation(cfg.prop + ".rc", strprintf("cif_container_get_value:%s!=%s", rc_name(rc), e.c_str()), strprintf("cif_container_get_value(%s) returned %s; %zu of %zu packets hold a value, so the model prescribes %s", u8(name).c_str(), rc_name(rc), r, n, e.c_str()), cur_op)); }
    else if ((rc == CIF_OK || rc == CIF_AMBIGUOUS_ITEM) && mode != 0) {
        if (!v) bad.reset(new Violation(cfg.prop + ".result", "get_value:null", "cif_container_get_value reported a value but provided none", cur_op));
        else { try { MValue got = snapshot_value(v); std::string cg = canon(got); if (!okvals.count(cg)) bad.reset(new Violation(cfg.prop + "." + cfg.content_clause, "get_value:value", strprintf("cif_container_get_value(%s) provided %s which is not a value of that item (%s)", u8(name).c_str(), show(got).c_str(), okvals.empty() ? "-" : okvals.begin()->substr(0, 120).c_str()), cur_op)); } catch (Violation &vi) { bad.reset(new Violation(cfg.prop + ".result", "get_value:" + vi.sig, vi.detail, cur_op)); } }
    }
    ev("cif_container_get_value -> %s", rc_name(rc));
    if (v && v != mine) cif_value_free(v);
    if (mine) cif_value_free(mine);
    if (bad) throw *bad;
}
void ApiRun::op_set_value(const Op &o) {
    int hs = pick_cont(o.a, false); if (hs < 0) SKIP("no container handle");
    int ci = conts[(size_t) hs].cif; RCif &c = cifs[(size_t) ci];
    bool in_tx = c.iter >= 0;
    if (in_tx && !cfg.weights[O_PlantFail]) SKIP("iterator open");
    MCont *m = mcont(hs);
    ustr name = name_str(o.names[0], o.simple); ustr nn = mnorm(name);
    bool invalid = o.names[0].invalid >= 0;
    MValue snap = MValue::unk(); cif_value_tp *v = NULL;
    if (!o.null_arg) v = make_value(o, snap, 1);
    int rc = CALL("cif_container_set_value", cif_container_set_value(conts[(size_t) hs].h, UC(name), v));
    MLoop *l = invalid ? NULL : m->loop_of(nn);
    cover(o.k, rc, hmix(prestate(ci, m, l), (uint64_t) snap.kind));
    std::unique_ptr<Violation> bad;
    try {
        if (v) { MValue again = snapshot_value(v); if (canon(again) != canon(snap)) violate("args_valid", "cif_container_set_value", "the caller's value object changed during cif_container_set_value"); }
        if (RELAX_FAULT(rc)) { }
        else if (in_tx) expect_rc("cif_container_set_value", rc, {}, true);
        else expect_rc("cif_container_set_value", rc, {invalid ? CIF_INVALID_ITEMNAME : CIF_OK});
    } catch (Violation &vi) { bad.reset(new Violation(vi)); }
    if (v) abuse_value(v, o.seed ^ 0x55);
    if (bad) throw *bad;
    if (rc != CIF_OK) { after_mutation(ci, true); return; }
    m = mcont(hs); l = m->loop_of(nn);
    if (l) { for (auto &p : l->packets) p.vals[nn] = snap; }
    else {
        MLoop *s = m->scalar_loop();
        if (!s) { MLoop nl; nl.uid = new_uid(); nl.has_cat = true; m->loops.push_back(nl); s = &m->loops.back(); }
        MName mn; mn.orig = name; mn.norm = nn; s->names.push_back(mn);
        if (s->packets.empty()) { MPacket p; p.uid = new_uid(); for (auto &x : s->names) p.vals[x.norm] = std::nullopt; p.vals[nn] = snap; s->packets.push_back(p); }
        else for (auto &p : s->packets) p.vals[nn] = snap;
    }
    after_mutation(ci, false);
}
void ApiRun::op_remove_item(const Op &o) {
    int hs = pick_cont(o.a, false); if (hs < 0) SKIP("no container handle");
    int ci = conts[(size_t) hs].cif; RCif &c = cifs[(size_t) ci];
    bool in_tx = c.iter >= 0;
    if (in_tx && !cfg.weights[O_PlantFail]) SKIP("iterator open");
    MCont *m = mcont(hs);
    ustr name = name_str(o.names[0], o.simple); ustr nn = mnorm(name);
    MLoop *l = (o.names[0].invalid >= 0) ? NULL : m->loop_of(nn);
    if (l && would_strand(l, nn)) SKIP("would strand a packet without stored values (unspecified)");
    if (l && in_tx) SKIP("iterator open");
    int rc = CALL("cif_container_remove_item", cif_container_remove_item(conts[(size_t) hs].h, UC(name)));
    cover(o.k, rc, prestate(ci, m, l));
    if (RELAX_FAULT(rc)) { after_mutation(ci, true); return; }
    if (in_tx) expect_rc("cif_container_remove_item", rc, {CIF_NOSUCH_ITEM}, true);
    else expect_rc("cif_container_remove_item", rc, {l ? CIF_OK : CIF_NOSUCH_ITEM});
    if (rc != CIF_OK) { after_mutation(ci, true); return; }
    int idx = l->find(nn); l->names.erase(l->names.begin() + idx);
    for (auto &p : l->packets) p.vals.erase(nn);
    if (l->names.empty()) { uint64_t uid = l->uid; for (size_t i = 0; i < m->loops.size(); ++i) if (m->loops[i].uid == uid) { m->loops.erase(m->loops.begin() + (long) i); break; } }
    after_mutation(ci, false);
}

// ------------------------------------------------------------------------------------------------ loop handle ops
void ApiRun::op_loop_destroy(const Op &o) {
    int ls = pick_loop(o.a, true, true); if (ls < 0) SKIP("no loop handle");
    HLoop &hl = loops[(size_t) ls]; int ci = hl.cif; MLoop *l = mloop(ls);
    int rc = CALL("cif_loop_destroy", cif_loop_destroy(hl.h));
    cover(o.k, rc, prestate(ci, NULL, l));
    if (RELAX_FAULT(rc)) { after_mutation(ci, true); return; }
    expect_rc("cif_loop_destroy", rc, {l ? CIF_OK : CIF_INVALID_HANDLE});
    if (rc != CIF_OK) { after_mutation(ci, true); return; }
    hl.h = NULL;       // released by the library
    MCont *m = find_cont(cifs[(size_t) ci].model, hl.cont_uid);
    for (size_t i = 0; i < m->loops.size(); ++i) if (m->loops[i].uid == hl.loop_uid) { m->loops.erase(m->loops.begin() + (long) i); break; }
    after_mutation(ci, false);
}
void ApiRun::op_loop_cat(const Op &o) {
    int ls = pick_loop(o.a, false, true); if (ls < 0) SKIP("no loop handle");
    HLoop &hl = loops[(size_t) ls]; MLoop *l = mloop(ls);
    UChar *cat = NULL;
    int rc = CALL("cif_loop_get_category", (cat = NULL, cif_loop_get_category(hl.h, &cat)));
    expect_rc("cif_loop_get_category", rc, {CIF_OK});
    bool has = cat != NULL; ustr got = from_uchar(cat); lib_free(cat);
    cover(o.k, rc, (uint64_t) (l ? (l->has_cat ? (l->cat.empty() ? 1 : 2) : 0) : 3));
    if (!l) return;    // a stale handle may answer from its cache
    bool model_ok = (has == l->has_cat) && (!has || got == l->cat);
    bool cache_ok = (has == hl.cached_has_cat) && (!has || got == hl.cached_cat);
    if (!model_ok && !cache_ok) violate("result", "get_category:value", strprintf("cif_loop_get_category reports %s, the loop's category is %s", has ? u8(got).c_str() : "(null)", l->has_cat ? u8(l->cat).c_str() : "(null)"));
}
void ApiRun::op_loop_names(const Op &o) {
    int ls = pick_loop(o.a, forced_loop < 0, true); if (ls < 0) SKIP("no loop handle");      // (a planted failure aims it at a loop beside an open iterator)
    HLoop &hl = loops[(size_t) ls]; MLoop *l = mloop(ls);
    UChar **names = NULL;
    int rc = CALL("cif_loop_get_names", (names = NULL, cif_loop_get_names(hl.h, &names)));
    cover(o.k, rc, prestate(hl.cif, NULL, l));
    if (RELAX_FAULT(rc)) return;
    expect_rc("cif_loop_get_names", rc, {l ? CIF_OK : CIF_INVALID_HANDLE});
    if (rc != CIF_OK) return;
    std::multiset<ustr> got, want;
    for (UChar **n = names; *n; ++n) { got.insert(from_uchar(*n)); lib_free(*n); }
    lib_free(names);
    for (auto &n : l->names) want.insert(n.orig);
    if (got != want) violate("result", "get_names:set", strprintf("cif_loop_get_names reports %zu names, the model holds %zu (or spellings differ from creation)", got.size(), want.size()));
}
void ApiRun::op_loop_set_cat(const Op &o) {
    int ls = pick_loop(o.a, false, true); if (ls < 0) SKIP("no loop handle");
    HLoop &hl = loops[(size_t) ls]; int ci = hl.cif; MLoop *l = mloop(ls);
    if (cifs[(size_t) ci].iter >= 0 && !cfg.weights[O_PlantFail]) SKIP("iterator open");
    const UChar *cat = NULL; ustr cs;
    if (o.cat_kind == 1) cat = UC(cs); else if (o.cat_kind == 2) { cs = cats()[(size_t) o.cat_idx % cats().size()]; cat = UC(cs); }
    int rc = CALL("cif_loop_set_category", cif_loop_set_category(hl.h, cat));
    cover(o.k, rc, hmix(prestate(ci, NULL, l), (uint64_t) o.cat_kind));
    if (RELAX_FAULT(rc)) { after_mutation(ci, true); return; }
    if (!l) { if (o.cat_kind == 1) expect_rc("cif_loop_set_category", rc, {CIF_RESERVED_LOOP}, true); else expect_rc("cif_loop_set_category", rc, {}, true); hl.cached_has_cat = cat != NULL; hl.cached_cat = cs; after_mutation(ci, true); return; }
    if (o.cat_kind == 1) { if (l->is_scalar()) expect_rc("cif_loop_set_category", rc, {CIF_OK, CIF_RESERVED_LOOP}); else expect_rc("cif_loop_set_category", rc, {CIF_RESERVED_LOOP}); }
    else if (l->is_scalar()) expect_rc("cif_loop_set_category", rc, {CIF_RESERVED_LOOP});
    else expect_rc("cif_loop_set_category", rc, {CIF_OK});
    if (rc != CIF_OK) { after_mutation(ci, true); return; }
    l->has_cat = cat != NULL; l->cat = cs; hl.cached_has_cat = l->has_cat; hl.cached_cat = cs;
    after_mutation(ci, false);
}
void ApiRun::op_loop_add_item(const Op &o) {
    int ls = pick_loop(o.a, false, true); if (ls < 0) SKIP("no loop handle");
    HLoop &hl = loops[(size_t) ls]; int ci = hl.cif; MLoop *l = mloop(ls);
    if (cifs[(size_t) ci].iter >= 0 && !cfg.weights[O_PlantFail]) SKIP("iterator open");
    MCont *m = find_cont(cifs[(size_t) ci].model, hl.cont_uid);
    if (!m) SKIP("container gone");
    ustr name = name_str(o.names[0], o.simple); ustr nn = mnorm(name);
    bool invalid = o.names[0].invalid >= 0;
    MValue snap = MValue::unk(); cif_value_tp *v = NULL;
    if (!o.null_arg) v = make_value(o, snap, 2);
    int rc = CALL("cif_loop_add_item", cif_loop_add_item(hl.h, UC(name), v));
    cover(o.k, rc, hmix(prestate(ci, m, l), (uint64_t) snap.kind));
    std::unique_ptr<Violation> bad;
    try {
        if (RELAX_FAULT(rc)) { }
        else if (!l) expect_rc("cif_loop_add_item", rc, {}, true);
        else if (invalid) expect_rc("cif_loop_add_item", rc, {CIF_INVALID_ITEMNAME});
        else if (m->loop_of(nn)) expect_rc("cif_loop_add_item", rc, {CIF_DUP_ITEMNAME});
        else expect_rc("cif_loop_add_item", rc, {CIF_OK});
    } catch (Violation &vi) { bad.reset(new Violation(vi)); }
    if (v) abuse_value(v, o.seed ^ 0x66);
    if (bad) throw *bad;
    if (rc != CIF_OK) { after_mutation(ci, true); return; }
    MName mn; mn.orig = name; mn.norm = nn; l->names.push_back(mn);
    for (auto &p : l->packets) p.vals[nn] = snap;
    after_mutation(ci, false);
}
// Builds a real packet for 'target' according to the op's packet mode; fills 'out' with the model view.
int ApiRun::build_packet(const Op &o, MLoop *target, HPacket &out, bool &foreign, bool &empty) {
    foreign = false; empty = false;
    std::vector<MName> names;
    Rng r(hmix(o.seed, 77));
    if (target) {
        switch (o.pk_mode) {
            case 1: for (auto &n : target->names) if (r.chance(1, 2)) names.push_back(n); if (names.empty() && !target->names.empty()) names.push_back(target->names[r.below(target->names.size())]); break;
            case 2: break;
            default: names = target->names; break;
        }
    }
    if (o.pk_mode == 3 || !target) {
        // a foreign item at position pos (first / middle / last): a pool name that is not in the target loop
        ustr fn = name_str(o.names.empty() ? NameRef() : o.names[0], o.simple);
        for (size_t t = 0; t < item_pool().size(); ++t) { ustr nn = mnorm(fn); if (!target || target->find(nn) < 0) break; fn = item_pool()[(t + 3) % item_pool().size()].variants[0]; }
        if (!target || target->find(mnorm(fn)) < 0) { MName mn; mn.orig = fn; mn.norm = mnorm(fn); size_t at = names.empty() ? 0 : (o.pos == 0 ? 0 : (o.pos == 1 ? names.size() / 2 : names.size())); names.insert(names.begin() + (long) at, mn); foreign = true; }
    }
    empty = names.empty();
    cif_packet_tp *p = NULL;
    int rc = CALL("cif_packet_create", (p = NULL, cif_packet_create(&p, NULL)));
    if (rc != CIF_OK || !p) { expect_rc("cif_packet_create", rc, {CIF_OK}); violate("result", "packet_create:null", "cif_packet_create returned no packet"); }
    out.p = p; out.items.clear();
    for (size_t i = 0; i < names.size(); ++i) {
        MValue snap; Op tmp = o; cif_value_tp *v = make_value(tmp, snap, 100 + i);
        // use a spelling variant of the name: packets match data names by normalised equivalence
        ustr spell = names[i].orig;
        int r2 = CALL("cif_packet_set_item", cif_packet_set_item(p, UC(spell), v));
        cif_value_free(v);
        if (r2 != CIF_OK) { cif_packet_free(p); out.p = NULL; expect_rc("cif_packet_set_item", r2, {CIF_OK}); }
        out.items.push_back({names[i], snap});
    }
    return CIF_OK;
}
void ApiRun::op_loop_add_packet(const Op &o) {
    int ls = pick_loop(o.a, false, true); if (ls < 0) SKIP("no loop handle");
    HLoop &hl = loops[(size_t) ls]; int ci = hl.cif; MLoop *l = mloop(ls);
    if (cifs[(size_t) ci].iter >= 0 && !cfg.weights[O_PlantFail]) SKIP("iterator open");
    HPacket pk; bool foreign = false, empty = false;
    build_packet(o, l, pk, foreign, empty);
    std::set<int> causes;
    if (empty) causes.insert(CIF_INVALID_PACKET);
    if (l) { if (foreign) causes.insert(CIF_WRONG_LOOP); if (l->is_scalar() && !l->packets.empty()) causes.insert(CIF_RESERVED_LOOP); }
    int rc = CALL("cif_loop_add_packet", cif_loop_add_packet(hl.h, pk.p));
    cover(o.k, rc, hmix(prestate(ci, NULL, l), (uint64_t) o.pk_mode * 4 + (uint64_t) o.pos));
    std::unique_ptr<Violation> bad;
    try {
        // the caller's packet must be unaffected
        for (auto &it : pk.items) { cif_value_tp *pv = NULL; int r2 = cif_packet_get_item(pk.p, UC(it.first.orig), &pv); if (r2 != CIF_OK || canon(snapshot_value(pv)) != canon(it.second)) violate("args_valid", "cif_loop_add_packet", "the caller's packet changed during cif_loop_add_packet"); }
        if (RELAX_FAULT(rc)) { }
        else if (!l) { if (empty) expect_rc("cif_loop_add_packet", rc, {CIF_INVALID_PACKET}, true); else expect_rc("cif_loop_add_packet", rc, {}, true); }
        else if (!causes.empty()) { if (!causes.count(rc)) { std::string e; for (int x : causes) { if (!e.empty()) e += "|"; e += rc_name(x); } violate("rc", strprintf("cif_loop_add_packet:%s!=%s", rc_name(rc), e.c_str()), strprintf("cif_loop_add_packet returned %s, the data model prescribes %s", rc_name(rc), e.c_str())); } ev("cif_loop_add_packet -> %s", rc_name(rc)); }
        else expect_rc("cif_loop_add_packet", rc, {CIF_OK});
    } catch (Violation &vi) { bad.reset(new Violation(vi)); }
    cif_packet_free(pk.p);
    if (bad) throw *bad;
    if (rc != CIF_OK) { after_mutation(ci, true); return; }
    MPacket mp; mp.uid = new_uid();
    for (auto &n : l->names) mp.vals[n.norm] = std::nullopt;
    for (auto &it : pk.items) mp.vals[it.first.norm] = it.second;
    l->packets.push_back(mp);
    after_mutation(ci, false);
}

// ------------------------------------------------------------------------------------------------ iterators
void ApiRun::op_iter_open(const Op &o) {
    int ls = pick_loop(o.a, true, true); if (ls < 0) SKIP("no loop handle on a CIF without an open iterator");
    HLoop &hl = loops[(size_t) ls]; int ci = hl.cif; MLoop *l = mloop(ls);
    cif_pktitr_tp *it = NULL;
    int rc = CALL("cif_loop_get_packets", (it = NULL, cif_loop_get_packets(hl.h, &it)));
    cover(o.k, rc, prestate(ci, NULL, l));
    if (RELAX_FAULT(rc)) { if (rc == CIF_OK) { } else return; }
    if (!l) expect_rc("cif_loop_get_packets", rc, {CIF_INVALID_HANDLE});
    else if (l->packets.empty()) expect_rc("cif_loop_get_packets", rc, {CIF_EMPTY_LOOP});
    else expect_rc("cif_loop_get_packets", rc, {CIF_OK});
    if (rc != CIF_OK) { if (it) violate("result", "get_packets:iterator_on_failure", "an iterator was recorded although the call failed"); check_dump(ci, "after a failed cif_loop_get_packets"); return; }
    if (!it) violate("result", "get_packets:null", "no iterator recorded on success");
    HIter hi; hi.it = it; hi.cif = ci; hi.loop_slot = ls; hi.snapshot = cifs[(size_t) ci].model;
    for (auto &p : l->packets) hi.undelivered.insert(p.uid);
    hi.loops_at_open = loops.size(); hi.conts_at_open = conts.size();
    iters.push_back(hi); cifs[(size_t) ci].iter = (int) iters.size() - 1; hl.locked = true;
    g_stats.inc("iter.opened");
}
static int pick_iter_cif(ApiRun *r, uint32_t x) { std::vector<int> v; for (size_t i = 0; i < r->cifs.size(); ++i) if (r->cifs[i].cif && r->cifs[i].iter >= 0) v.push_back((int) i); return v.empty() ? -1 : v[x % v.size()]; }
void ApiRun::op_iter_next(const Op &o) {
    int ci = pick_iter_cif(this, o.a); if (ci < 0) SKIP("no open iterator");
    HIter &hi = iters[(size_t) cifs[(size_t) ci].iter]; MLoop *l = mloop(hi.loop_slot);
    long remaining = (long) hi.undelivered.size() - hi.unknown_delivered;
    cif_packet_tp *pk = NULL, *reused = NULL;
    if (o.pk_mode == 2) {
        // a reused packet object that holds a foreign item and (maybe) one of the loop's items
        UChar *nm[3]; ustr f1 = U("_foreign_item"), f2 = l->names[0].orig; nm[0] = (UChar *) UC(f1); nm[1] = (o.b % 2) ? (UChar *) UC(f2) : NULL; nm[2] = NULL;
        int r0 = CALL("cif_packet_create", (reused = NULL, cif_packet_create(&reused, nm))); if (r0 != CIF_OK) { expect_rc("cif_packet_create", r0, {CIF_OK}); }
        pk = reused;
    }
    iter_fault_hit = false;
    int rc = CALLI("cif_pktitr_next_packet", cif_pktitr_next_packet(hi.it, o.pk_mode == 0 ? NULL : &pk));
    if (RELAX_FAULT(rc)) { ev("iterator call -> %s under a storage fault: the iterator is abandoned", rc_name(rc)); g_stats.inc("iter.storage_fault"); iter_fault_hit = true; }
    cover(o.k, rc, hmix((uint64_t) hi.state, hmix((uint64_t) o.pk_mode, std::min<long>(remaining, 2))));
    std::unique_ptr<Violation> bad;
    try {
        if (iter_fault_hit) { ev("next_packet under allocation failure -> %s", rc_name(rc)); }
        else if (remaining > 0) expect_rc("cif_pktitr_next_packet", rc, {CIF_OK});
        else expect_rc("cif_pktitr_next_packet", rc, {CIF_FINISHED});
        if (rc == CIF_OK && !iter_fault_hit) {
            if (o.pk_mode == 0) { ++hi.unknown_delivered; hi.cur_unknown = true; hi.cur_valid = false; hi.state = IT_ITERATED; }
            else {
                if (!pk) violate("once", "next:null_packet", "cif_pktitr_next_packet returned CIF_OK without a packet");
                const UChar **pn = NULL; int r2 = cif_packet_get_names(pk, &pn);
                if (r2 != CIF_OK) violate("once", "next:names", "cif_packet_get_names failed on a delivered packet");
                MPacket got; size_t cnt = 0; std::string prob;
                for (const UChar **n = pn; *n; ++n) { ++cnt; cif_value_tp *pv = NULL; ustr nn = mnorm(from_uchar(*n)); if (l->find(nn) < 0) prob = "the delivered packet holds item " + u8(*n) + " which is not in the loop"; else if (cif_packet_get_item(pk, *n, &pv) != CIF_OK) prob = "cif_packet_get_item failed on an enumerated name"; else got.vals[nn] = snapshot_value(pv); }
                lib_free(pn);
                if (prob.empty() && (cnt != l->names.size() || got.vals.size() != l->names.size())) prob = strprintf("the delivered packet holds %zu items, the loop has %zu", cnt, l->names.size());
                if (!prob.empty()) violate("once", "next:items", prob);
                auto pc = [&](const MPacket &p) { std::string s; for (auto &n : l->names) { auto it = p.vals.find(n.norm); s += (it != p.vals.end() && it->second) ? canon(*it->second) : std::string("?"); s += "\x1f"; } return s; };
                std::vector<std::pair<std::string, uint64_t>> cand;   // undelivered packets in a stable order
                for (auto &p : l->packets) if (hi.undelivered.count(p.uid)) cand.push_back({pc(p), p.uid});
                std::string g; { std::string s; MPacket tmp; for (auto &n : l->names) { s += canon(*got.vals[n.norm]); s += "\x1f"; } g = s; }
                uint64_t match = 0; for (auto &cnd : cand) if (cnd.first == g) { match = cnd.second; break; }
                if (!match) violate("once", "next:unexpected_packet", strprintf("the iterator delivered a packet that is not among the %zu packets still to be delivered (delivered twice, or wrong values)", cand.size()));
                hi.undelivered.erase(match); hi.cur = match; hi.cur_valid = true; hi.cur_unknown = false; hi.state = IT_ITERATED;
            }
        } else if (rc == CIF_FINISHED) hi.state = IT_FINISHED;
    } catch (Violation &vi) { bad.reset(new Violation(vi)); }
    if (pk) cif_packet_free(pk);
    if (bad) throw *bad;
    if (iter_fault_hit) { Op e = o; op_iter_end(e, true, true); }
}
void ApiRun::op_iter_update(const Op &o) {
    int ci = pick_iter_cif(this, o.a); if (ci < 0) SKIP("no open iterator");
    HIter &hi = iters[(size_t) cifs[(size_t) ci].iter]; MLoop *l = mloop(hi.loop_slot);
    if (hi.cur_unknown) SKIP("current packet was delivered through next(NULL)");
    HPacket pk; bool foreign = false, empty = false;
    build_packet(o, l, pk, foreign, empty);
    iter_fault_hit = false;
    int rc = CALLI("cif_pktitr_update_packet", cif_pktitr_update_packet(hi.it, pk.p));
    if (RELAX_FAULT(rc)) { ev("iterator call -> %s under a storage fault: the iterator is abandoned", rc_name(rc)); g_stats.inc("iter.storage_fault"); iter_fault_hit = true; }
    cover(o.k, rc, hmix((uint64_t) hi.state, (uint64_t) o.pk_mode * 4 + (uint64_t) o.pos + (hi.cur_valid ? 16 : 0)));
    std::unique_ptr<Violation> bad;
    try {
        if (iter_fault_hit) { }
        else if (!hi.cur_valid) expect_rc("cif_pktitr_update_packet", rc, foreign ? std::initializer_list<int>{CIF_MISUSE, CIF_WRONG_LOOP} : std::initializer_list<int>{CIF_MISUSE});
        else if (hi.state == IT_FINISHED) { if (foreign) expect_rc("cif_pktitr_update_packet", rc, {CIF_WRONG_LOOP, CIF_MISUSE}); else if (empty) expect_rc("cif_pktitr_update_packet", rc, {CIF_OK}, true); else expect_rc("cif_pktitr_update_packet", rc, {CIF_OK, CIF_MISUSE}); }
        else if (foreign) expect_rc("cif_pktitr_update_packet", rc, {CIF_WRONG_LOOP});
        else if (empty) expect_rc("cif_pktitr_update_packet", rc, {CIF_OK}, true);
        else expect_rc("cif_pktitr_update_packet", rc, {CIF_OK});
    } catch (Violation &vi) { bad.reset(new Violation(vi)); }
    cif_packet_free(pk.p);
    if (bad) throw *bad;
    if (iter_fault_hit) { Op e = o; op_iter_end(e, true, true); return; }
    if (rc == CIF_OK && hi.cur_valid && !foreign) { for (auto &p : l->packets) if (p.uid == hi.cur) for (auto &it : pk.items) p.vals[it.first.norm] = it.second; }
}
void ApiRun::op_iter_remove(const Op &o) {
    int ci = pick_iter_cif(this, o.a); if (ci < 0) SKIP("no open iterator");
    HIter &hi = iters[(size_t) cifs[(size_t) ci].iter]; MLoop *l = mloop(hi.loop_slot);
    if (hi.cur_unknown) SKIP("current packet was delivered through next(NULL)");
    iter_fault_hit = false;
    int rc = CALLI("cif_pktitr_remove_packet", cif_pktitr_remove_packet(hi.it));
    if (RELAX_FAULT(rc)) { ev("iterator call -> %s under a storage fault: the iterator is abandoned", rc_name(rc)); g_stats.inc("iter.storage_fault"); iter_fault_hit = true; }
    cover(o.k, rc, hmix((uint64_t) hi.state, hi.cur_valid ? 1 : 0));
    if (iter_fault_hit) { Op e = o; op_iter_end(e, true, true); return; }
    if (!hi.cur_valid) expect_rc("cif_pktitr_remove_packet", rc, {CIF_MISUSE});
    else if (hi.state == IT_FINISHED) expect_rc("cif_pktitr_remove_packet", rc, {CIF_OK, CIF_MISUSE});
    else expect_rc("cif_pktitr_remove_packet", rc, {CIF_OK});
    if (rc == CIF_OK && hi.cur_valid) {
        for (size_t i = 0; i < l->packets.size(); ++i) if (l->packets[i].uid == hi.cur) { l->packets.erase(l->packets.begin() + (long) i); break; }
        hi.cur_valid = false; if (hi.state != IT_FINISHED) hi.state = IT_REMOVED;
    }
}
void ApiRun::op_iter_end(const Op &o, bool abort, bool after_fault) {
    int ci = pick_iter_cif(this, o.a); if (ci < 0) SKIP("no open iterator");
    RCif &c = cifs[(size_t) ci]; HIter &hi = iters[(size_t) c.iter];
    // C17: close / abort themselves run under one failing allocation now and then (the iterator is gone afterwards either way)
    bool faulted_end = cfg.enumerate_alloc && !after_fault && (o.seed % 3) == 0;
    iter_fault_hit = false;
    int rc = faulted_end ? (abort ? CALLI("cif_pktitr_abort", cif_pktitr_abort(hi.it)) : CALLI("cif_pktitr_close", cif_pktitr_close(hi.it)))
                         : (abort ? CALLN("cif_pktitr_abort", cif_pktitr_abort(hi.it)) : CALLN("cif_pktitr_close", cif_pktitr_close(hi.it)));
    if (faulted_end && iter_fault_hit) {
        // the call failed for lack of memory: a failed commit is rolled back by the library, a failed rollback leaves the transaction
        // open (recorded design limitation, see TxMonitor) -- in both cases nothing of the transaction may survive
        hi.it = NULL; loops[(size_t) hi.loop_slot].locked = false; c.iter = -1; iter_fault_hit = false;
        g_stats.inc(abort ? "iter.abort_failed_oom" : "iter.close_failed_oom");
        tx_check(abort ? "cif_pktitr_abort" : "cif_pktitr_close", rc, 0, last_fault_sq);
        c.model = hi.snapshot;
        for (size_t k = hi.loops_at_open; k < loops.size(); ++k) if (loops[k].h && loops[k].cif == ci) free_loop_slot((int) k);
        for (size_t k = hi.conts_at_open; k < conts.size(); ++k) if (conts[k].h && conts[k].cif == ci && !find_cont(c.model, conts[k].uid)) free_cont_slot((int) k);
        check_dump(ci, "after a close / abort that failed for lack of memory (everything reverted)");
        return;
    }
    if (after_fault && rc == CIF_ERROR && sqlite3_get_autocommit(c.cif->db) != 0) {
        // the storage engine rolled the transaction back by itself when the iterator call ran out of memory; the library's
        // own rollback then has nothing to roll back and cif_pktitr_abort reports CIF_ERROR although the abort took effect
        // (the dump comparison below checks that it did)
        g_stats.inc("iter.abort_after_engine_rollback"); ev("cif_pktitr_abort -> CIF_ERROR after the engine's own rollback (accepted)"); rc = CIF_OK;
    }
    hi.it = NULL; loops[(size_t) hi.loop_slot].locked = false; c.iter = -1;
    cover(abort ? O_IterAbort : O_IterClose, rc, (uint64_t) hi.state);
    if (abort) {
        c.model = hi.snapshot;
        // objects created inside the aborted transaction no longer exist; handles on them are not valid handles any more
        // (their loop numbers may even be reused), so they are released rather than kept as "stale" handles
        for (size_t k = hi.loops_at_open; k < loops.size(); ++k) if (loops[k].h && loops[k].cif == ci) free_loop_slot((int) k);
        for (size_t k = hi.conts_at_open; k < conts.size(); ++k) if (conts[k].h && conts[k].cif == ci && !find_cont(c.model, conts[k].uid)) free_cont_slot((int) k);
    }
    if (RELAX_FAULT(rc)) { c.model = hi.snapshot; check_dump(ci, "after a failed close (reverted)"); return; }
    expect_rc(abort ? "cif_pktitr_abort" : "cif_pktitr_close", rc, {CIF_OK});
    g_stats.inc(abort ? "iter.aborted" : "iter.closed");
    check_dump(ci, abort ? "after abort" : "after close");
}

// ------------------------------------------------------------------------------------------------ handles
void ApiRun::op_handle_free(const Op &o) {
    if (o.b % 2) {
        int ls = pick_loop(o.a, false, true); if (ls < 0) SKIP("no loop handle");
        free_loop_slot(ls);
    } else {
        int live = 0; for (auto &c : conts) if (c.h) ++live;
        if (live < 2) SKIP("would leave no container handle");
        int hs = pick_cont(o.a, false); if (hs < 0) SKIP("no container handle");
        for (auto &l : loops) if (l.h && l.via == hs && l.locked) SKIP("a dependent loop handle is being iterated");
        free_cont_slot(hs);
    }
}
void ApiRun::op_packet_new(const Op &o) { (void) o; }
